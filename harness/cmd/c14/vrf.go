// C14 harness, part 9: well-formed consensus messages with malformed sortition
// credentials through MessageHandler.HandleMsg.  The handler is assembled by the
// hook VerifC14Handler with the REAL Proposal / Voter callbacks, so a message that
// is correctly encoded, correctly signed and sent by a known chamber validator
// reaches VrfVerifyPriority / VrfVerifySortition and, in them,
// secp256k1VRF.ProofToHash.  (What is replaced: the chain look-ups of
// Server.verifyPriority / verifySortition - seed, stake, total stake and
// thresholds are constants of the harness; a Server with a chain is not built.)
// Outcome classes: accept / reject / PANIC; a panic is an oracle hit.
package main

import (
	"bytes"
	"encoding/hex"
	"encoding/json"
	"fmt"
	"math/big"
	"strings"
	"time"

	"github.com/youchainhq/go-youchain/common"
	"github.com/youchainhq/go-youchain/consensus/ucon"
	"github.com/youchainhq/go-youchain/core/state"
	"github.com/youchainhq/go-youchain/core/types"
	"github.com/youchainhq/go-youchain/crypto"
	secp256k1VRF "github.com/youchainhq/go-youchain/crypto/vrf/secp256k1"
	"github.com/youchainhq/go-youchain/params"
	"github.com/youchainhq/go-youchain/rlp"
)

const crashKey = "handler-crashed-on-well-formed-message:HandleMsg"

// proofs that only the owner of the validator key can make (equal / opposite addends in ProofToHash)
const forgedKey = "handler-crashed-on-owner-forged-vrf-proof:HandleMsg"

var (
	vrfMh2   *ucon.MessageHandler // a second node: what the first one relays must be acceptable to it
	vrfRelay *relayed
	vrfMh    *ucon.MessageHandler
	vrfSeed  = common.Hash{0x5e, 0xed}
	vrfStake = big.NewInt(1000)
	vrfTotal = big.NewInt(1000)
	vrfTh    = uint64(900)
)

func vrfSetup() {
	handlerSetup()
	if vrfMh != nil {
		return
	}
	val := state.NewValidator("v", common.Address{1}, common.Address{2}, params.RoleChancellor, nil, nil,
		big.NewInt(1000), big.NewInt(1000), 0, 0, 0, params.ValidatorOnline)
	getVal := func(round *big.Int, addr common.Address, lb params.LookBackType) (*state.Validator, bool) { return val, false }
	vrfMh = ucon.VerifC14Handler(hKey, getVal, vrfSeed, vrfStake, vrfTotal, vrfTh, vrfTh)
	vrfMh2 = ucon.VerifC14Handler(hKey, getVal, vrfSeed, vrfStake, vrfTotal, vrfTh, vrfTh)
	vrfRelay = watchRelay(ucon.VerifC14Mux(vrfMh))
}

func runVrfHandleMsg2(data []byte) (res, pan string) {
	vrfSetup()
	func() {
		defer func() {
			if x := recover(); x != nil {
				pan = fmt.Sprint(x)
			}
		}()
		if err := vrfMh2.HandleMsg(data, time.Now()); err != nil {
			res = "reject"
		} else {
			res = "accept"
		}
	}()
	return
}

type proofShape struct {
	name string
	mk   func(honest []byte) []byte
}

func setScalar(off int, v *big.Int) func([]byte) []byte {
	return func(h []byte) []byte {
		p := append([]byte{}, h...)
		b := v.Bytes()
		for i := 0; i < 32; i++ {
			p[off+i] = 0
		}
		copy(p[off+32-len(b):off+32], b)
		return p
	}
}

func proofShapes() []proofShape {
	n := crypto.S256().Params().N
	max := new(big.Int).Sub(new(big.Int).Lsh(big.NewInt(1), 256), big.NewInt(1))
	out := []proofShape{{"honest", func(h []byte) []byte { return h }}}
	for _, sc := range []struct {
		n string
		v *big.Int
	}{{"0", new(big.Int)}, {"N", n}, {"N+1", new(big.Int).Add(n, big.NewInt(1))}, {"2^256-1", max}} {
		out = append(out, proofShape{"scalar-s=" + sc.n, setScalar(0, sc.v)}, proofShape{"scalar-t=" + sc.n, setScalar(32, sc.v)})
	}
	// proofs only the owner of the key can make: t = s*k (the two addends of [t]G + [s]pk are
	// the same point), t = -s*k (they are opposite: the sum is the point at infinity)
	forged := func(neg bool) func([]byte) []byte {
		return func(h []byte) []byte {
			sv := new(big.Int).SetBytes(h[0:32])
			t := new(big.Int).Mul(sv, hKey.D)
			if neg {
				t.Neg(t)
			}
			t.Mod(t, n)
			return setScalar(32, t)(h)
		}
	}
	out = append(out, proofShape{"owner-forged-t=s*k", forged(false)}, proofShape{"owner-forged-t=-s*k", forged(true)})
	tag := func(b byte) func([]byte) []byte {
		return func(h []byte) []byte { p := append([]byte{}, h...); p[64] = b; return p }
	}
	out = append(out,
		proofShape{"length-0", func(h []byte) []byte { return []byte{} }},
		proofShape{"length-64", func(h []byte) []byte { return append([]byte{}, h[:64]...) }},
		proofShape{"length-128", func(h []byte) []byte { return append([]byte{}, h[:128]...) }},
		proofShape{"length-130", func(h []byte) []byte { return append(append([]byte{}, h...), 0) }},
		proofShape{"tag-00", tag(0x00)}, proofShape{"tag-02", tag(0x02)}, proofShape{"tag-05", tag(0x05)}, proofShape{"tag-ff", tag(0xff)},
		proofShape{"point-off-curve", func(h []byte) []byte { p := append([]byte{}, h...); p[100] ^= 0x55; return p }},
		proofShape{"scalar-s-bitflip", func(h []byte) []byte { p := append([]byte{}, h...); p[31] ^= 1; return p }},
		proofShape{"zeros-129", func(h []byte) []byte { return make([]byte, 129) }},
	)
	return out
}

var msgKinds = []struct {
	code uint8
	name string
	vt   ucon.VoteType
}{{1, "priority", ucon.Propose}, {2, "block", ucon.Propose}, {3, "prevote", ucon.Prevote}, {4, "precommit", ucon.Precommit},
	{5, "next", ucon.NextIndex}, {6, "certificate", ucon.Certificate}}

// a correctly encoded and signed consensus message of the given kind whose credential is shape(honest proof)
var vrfBlockExtra = 0 // bytes of header.Extra of the proposed block (a proposal of >= 4 KiB is ~35 transfers)

func vrfMessage(code uint8, vt ucon.VoteType, shape proofShape, round uint64, index uint32) ([]byte, error) {
	signer, err := secp256k1VRF.NewVRFSigner(hKey)
	if err != nil {
		return nil, err
	}
	value, honest, j := ucon.VrfSortition(signer, vrfSeed, index, uint32(vt), vrfTh, vrfStake, vrfTotal)
	if j == 0 || len(honest) != 129 {
		return nil, fmt.Errorf("not selected")
	}
	proof := shape.mk(honest)
	prio := ucon.VrfComputePriority(value, j)
	rd := new(big.Int).SetUint64(round)
	now := uint64(time.Now().Unix())
	var payload []byte
	switch code {
	case 1:
		payload, err = rlp.EncodeToBytes(&ucon.ConsensusCommon{Round: rd, RoundIndex: index, Step: uint32(vt), Priority: prio,
			SortitionProof: proof, SubUsers: j, BlockHash: common.Hash{9}, ParentHash: common.Hash{8}, Timestamp: now})
	case 2:
		cd, e := rlp.EncodeToBytes(&ucon.BlockConsensusData{Round: rd, RoundIndex: index, Seed: vrfSeed, SortitionProof: proof,
			Priority: prio, SubUsers: j, Signature: []byte{}, ProposerThreshold: vrfTh, ValidatorThreshold: vrfTh, CertValThreshold: vrfTh})
		if e != nil {
			return nil, e
		}
		h := &types.Header{Number: rd, Subsidy: new(big.Int), GasRewards: new(big.Int), Time: now, Consensus: cd,
			Extra: bytes.Repeat([]byte{0x5a}, vrfBlockExtra), SlashData: []byte{}, ChtRoot: []byte{}, BltRoot: []byte{}, Validator: []byte{}, Signature: []byte{}, Certificate: []byte{}}
		payload, err = rlp.EncodeToBytes(types.NewBlockWithHeader(h))
	default:
		bh := common.Hash{7}
		sig, e := ucon.Sign(hKey, ucon.VerifC14VotePayload(bh, rd, index))
		if e != nil {
			return nil, e
		}
		payload, err = rlp.EncodeToBytes(&ucon.BlockHashWithVotes{Priority: prio, BlockHash: bh, Round: rd, RoundIndex: index,
			Vote: &ucon.SingleVote{VoterIdx: 0, Votes: j, Signature: sig, Proof: proof}, Timestamp: now})
	}
	if err != nil {
		return nil, err
	}
	return signedMsg(code, payload), nil
}

func runVrfHandleMsg(data []byte) (res, pan string) {
	vrfSetup()
	func() {
		defer func() {
			if x := recover(); x != nil {
				pan = fmt.Sprint(x)
			}
		}()
		if err := vrfMh.HandleMsg(data, time.Now()); err != nil {
			res = "reject"
		} else {
			res = "accept"
		}
	}()
	return
}

func (g *genState) vrfObs(kind, shape string, data []byte, res, pan string) {
	if pan != "" {
		g.res.Count("vrf:" + kind + ":PANIC")
		key := crashKey
		if strings.HasPrefix(shape, "owner-forged") || (shape == "corpus" && strings.Contains(kind, "owner-forged")) {
			key = forgedKey
		}
		g.hit(hit{What: key, Type: "handler:HandleMsg", Mode: "vrf-handler", Bytes: hex.EncodeToString(data),
			Note: "handler crashed on a well-formed " + kind + " message (credential " + shape + "): " + pan})
		return
	}
	g.res.Count("vrf:" + kind + ":" + res)
	switch {
	case shape != "honest" && shape != "corpus" && res == "accept":
		g.hit(hit{What: "handler-accepted-malformed-credential:HandleMsg", Type: "handler:HandleMsg", Mode: "vrf-handler", Bytes: hex.EncodeToString(data), Note: kind + " / " + shape})
	case shape == "honest" && res != "accept":
		// the campaign must reach the verifier: an honest message is accepted
		g.hit(hit{What: "harness:honest-consensus-message-rejected", Type: "handler:HandleMsg", Mode: "vrf-handler", Bytes: hex.EncodeToString(data), Note: kind})
	}
}

func (g *genState) vrfCampaign() {
	vrfSetup()
	before := ucon.VerifC14VerifyCalls
	k := uint64(0)
	for _, mk := range msgKinds {
		for _, sh := range proofShapes() {
			k++
			data, err := vrfMessage(mk.code, mk.vt, sh, 1000+k, uint32(1+k%3))
			if err != nil {
				g.res.Count("vrf:build-failed")
				continue
			}
			orig := append([]byte{}, data...)
			res, pan := runVrfHandleMsg(data)
			g.vrfObs(mk.name, sh.name, orig, res, pan)
			if pan == "" {
				g.handlerOwnership(orig, data, res, vrfRelay, runVrfHandleMsg2)
			}
			g.res.Count("vrf_shape:" + sh.name)
		}
	}
	// proposals of 4 KiB and more: the envelope's Payload is a large byte field of the decoded message
	for i, extra := range []int{3500, 4096, 5000, 70000} {
		vrfBlockExtra = extra
		data, err := vrfMessage(2, ucon.Propose, proofShapes()[0], 5000+uint64(i), 1)
		vrfBlockExtra = 0
		if err != nil {
			continue
		}
		orig := append([]byte{}, data...)
		res, pan := runVrfHandleMsg(data)
		g.vrfObs("big-block", "honest", orig, res, pan)
		if pan == "" {
			g.handlerOwnership(orig, data, res, vrfRelay, runVrfHandleMsg2)
		}
	}
	g.res.Extra["vrf_verifier_calls_reached"] = ucon.VerifC14VerifyCalls - before
	g.res.Extra["vrf_handler_note"] = "MessageHandler with the real Proposal/Voter callbacks (hook VerifC14Handler); Server.verifyPriority/verifySortition replaced by their VrfVerify* calls with harness constants for seed, stake and thresholds (no chain)"
}

// prints corpus witnesses (run once; the bytes are stored under corpus/C14)
func vrfWitnessCmd() {
	vrfSetup()
	for _, w := range []struct {
		file, kind, shape string
	}{{"w7_vote_vrf_scalar_t_ff", "precommit", "scalar-t=2^256-1"}, {"w8_priority_vrf_scalar_s_0", "priority", "scalar-s=0"}} {
		for _, mk := range msgKinds {
			for _, sh := range proofShapes() {
				if mk.name == w.kind && sh.name == w.shape {
					data, err := vrfMessage(mk.code, mk.vt, sh, 77, 1)
					if err != nil {
						panic(err)
					}
					b, _ := json.MarshalIndent(hit{What: "regression:" + crashKey, Expect: "reject", Type: "handler:HandleMsg", Mode: "vrf-handler",
						Bytes: hex.EncodeToString(data), Note: "regression: a well-formed " + w.kind + " message whose credential has " + w.shape +
							" crashed the node in secp256k1VRF.ProofToHash before fix commit 040df4d; must be rejected"}, "", " ")
					fmt.Printf("%s\n%s\n", w.file, b)
				}
			}
		}
	}
}
