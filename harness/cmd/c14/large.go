// C14 harness, part 12: large containers.  The encoder keeps its list headers in a
// pooled buffer; a value with more nested lists than the buffer holds makes it grow
// in the middle of an encoding.  For every container type, values with element counts
// around the powers of two are encoded right after the pools were emptied (two GC
// cycles: cold) and again at once (warm), through EncodeToBytes, Encode into a writer,
// Encode into a hasher and EncodeToReader.  All encodings of one value must be
// byte-identical, well-formed for the harness' own reference parser, decode back to
// the value, and hash to keccak256(EncodeToBytes); the smaller sizes are also compared
// with the model's encoding inside Coq.
package main

import (
	"bytes"
	"encoding/hex"
	"fmt"
	"reflect"
	"runtime"

	"github.com/youchainhq/go-youchain/crypto"
	"github.com/youchainhq/go-youchain/crypto/sha3"
	"github.com/youchainhq/go-youchain/rlp"
	"verif/harness/vf"
)

var largeTypes = []string{"Transactions", "Body", "Block", "Validators", "WithdrawQueue", "UconValidators", "BlocksData",
	"Evidences", "Headers", "DelegationFroms", "Receipts", "NewBlockHashesData"}
var largeCounts = []int{63, 64, 65, 127, 128, 129, 253, 254, 255, 256, 257, 300, 1000, 4096}

// sizes whose encoding is also compared with the model inside Coq
func modelChecked(tn string, n int) bool {
	switch n {
	case 64, 65, 128, 129:
		return true
	case 255, 256, 257:
		return tn == "Transactions" || tn == "UconValidators" || tn == "WithdrawQueue"
	}
	return false
}

func coldPools() { runtime.GC(); runtime.GC() }

func (g *genState) largeContainerCheck(e *entry, p reflect.Value, n int, emit bool) {
	fail := func(what, note string, enc []byte) {
		g.res.Count("large_container_hit")
		if len(enc) > 400000 {
			enc = enc[:400000]
		}
		g.hit(hit{What: what + ":" + e.name, Type: e.name, Bytes: hex.EncodeToString(enc), Note: fmt.Sprintf("%d elements: %s", n, note)})
	}
	type path struct {
		name string
		run  func() ([]byte, error)
	}
	x := p.Interface()
	paths := []path{
		{"EncodeToBytes", func() ([]byte, error) { return rlp.EncodeToBytes(x) }},
		{"Encode-to-writer", func() ([]byte, error) { var w bytes.Buffer; err := rlp.Encode(&w, x); return w.Bytes(), err }},
		{"EncodeToReader", func() ([]byte, error) {
			size, rd, err := rlp.EncodeToReader(x)
			if err != nil {
				return nil, err
			}
			b, err := drain(rd, 4096, 1, nil)
			if err == nil && size != len(b) {
				err = fmt.Errorf("reported size %d, delivered %d", size, len(b))
			}
			return b, err
		}},
	}
	var ref []byte // the warm EncodeToBytes
	var cold [][]byte
	var pan string
	func() {
		defer func() {
			if r := recover(); r != nil {
				pan = fmt.Sprint(r)
			}
		}()
		for _, pt := range paths {
			coldPools()
			c, err := pt.run()
			if err != nil {
				pan = pt.name + ": " + err.Error()
				return
			}
			w, _ := pt.run() // warm
			cold = append(cold, c)
			if ref == nil {
				ref = w
			}
			if !bytes.Equal(c, w) {
				fail("large-container-encodings-differ", "the first "+pt.name+" after the pools were emptied differs from the next one of the same value", w)
				return
			}
			if !bytes.Equal(w, ref) {
				fail("large-container-encodings-differ", pt.name+" differs from EncodeToBytes", ref)
				return
			}
		}
		// the hashing path (rlpHash): Encode into a keccak state, cold
		coldPools()
		hw := sha3.NewKeccak256()
		rlp.Encode(hw, x)
		if !bytes.Equal(hw.Sum(nil), crypto.Keccak256(ref)) {
			fail("large-container-encodings-differ", "the hash computed by encoding into a keccak state differs from keccak256(EncodeToBytes)", ref)
		}
	}()
	if pan != "" {
		g.res.Count("large_container_not_encodable")
		return
	}
	if ref == nil {
		return
	}
	g.res.Count("large_container_values")
	// independent of rlp: the reference parser takes it apart and puts it together again
	if it, err := parseAll(cold[0]); err != nil || !bytes.Equal(enc(it), cold[0]) {
		fail("large-container-roundtrip-fails", "the cold encoding is not a canonical RLP value for the reference parser", ref)
	}
	mv, _ := projObj(p)
	o := goDecode(e, cold[0], false)
	rt := false
	if o.Accepted {
		mv2, _ := projObj(o.obj)
		rt = mvEq(mv, mv2)
	}
	if !rt {
		fail("large-container-roundtrip-fails", "decode(encode(x)) != x ("+o.Err+o.Panic+")", ref)
	}
	if n >= 1000 {
		g.allocCheck(e, ref, "valid", allocValidK, n == 1000)
	}
	if n == 64 {
		g.minimalElementLists(e, ref, 300000)
	}
	if emit && len(cold[0]) <= 16000 {
		c := Case{Kind: "enc", Type: e.name, ty: e.id, Bytes: "(large container)", RT: rt, Mut: fmt.Sprintf("large:%d", n)}
		c.coq = fmt.Sprintf("PEnc %d (%s) %s %s", e.id, mv.Coq(), vf.Bool(rt), byteList(cold[0]))
		g.add(c)
		g.res.Count("large_container_model_checked")
	}
}

// ---- allocation for honestly sized inputs ----------------------------------------------------
// Two input classes, each with its own linear bound (constants in the evidence):
//  valid   - a valid large container (the elements are really there): the decoder builds
//            the objects, bound allocValidK x len + 1 MiB;
//  minimal - a list position filled with very many minimal elements (0x80), honest size
//            fields: the decoder rejects at the first element (or builds tiny elements),
//            bound allocMinimalK x len + 1 MiB.
// A decoder that allocates by a size field (payload bytes x element size) before it has
// decoded anything exceeds both for element types of 20-40 bytes.
const (
	allocValidK   = 90 // twice the worst honest case of the unchanged code (43.1 x: large lists of minimal blocks)
	allocMinimalK = 6  // the unchanged code allocates 0.01 x for these inputs (it rejects at the first element)
	allocConst    = 1 << 20
)

func (g *genState) allocCheck(e *entry, b []byte, class string, k uint64, stream bool) {
	var o obs
	if stream {
		o, _ = goDecodeStream(e, b)
	} else {
		o = goDecode(e, b, true)
	}
	ratio := float64(o.Alloc) / float64(len(b))
	key := "alloc_ratio_max:" + class
	if cur, ok := g.res.Extra[key].(float64); !ok || ratio > cur {
		g.res.Extra[key] = ratio
	}
	g.res.Count("alloc_checked:" + class)
	if o.Alloc > k*uint64(len(b))+allocConst {
		g.res.Count("alloc_hit")
		in := b
		if len(in) > 100000 {
			in = in[:100000]
		}
		mode := ""
		if stream {
			mode = "stream"
		}
		g.hit(hit{What: "allocation-far-beyond-honest-input:" + e.name, Type: e.name, Mode: mode, Bytes: hex.EncodeToString(in),
			Note: fmt.Sprintf("%s input of %d bytes with honest size fields: the decode allocated %d bytes (%.1f x the input; bound %d x + 1 MiB)", class, len(b), o.Alloc, ratio, k)})
	}
	if o.Accepted {
		g.capOracle(e, o.obj, b, "")
	}
}

// every list position of a small valid encoding, filled with m empty strings
func (g *genState) minimalElementLists(e *entry, seed []byte, m int) {
	it, err := parseAll(seed)
	if err != nil {
		return
	}
	var ns []*Item
	nodes(it, &ns)
	filler := make([]*Item, m)
	empty := &Item{B: []byte{}}
	for i := range filler {
		filler[i] = empty
	}
	done := 0
	for _, x := range ns {
		if !x.IsList || done >= 4 {
			continue
		}
		saved := x.L
		x.L = filler
		b := enc(it)
		x.L = saved
		done++
		g.allocCheck(e, b, "minimal", allocMinimalK, done%2 == 0)
	}
}

func (g *genState) largeContainerCampaign() {
	g.res.Extra["alloc_bound_valid_K"] = allocValidK
	g.res.Extra["alloc_bound_minimal_K"] = allocMinimalK
	g.res.Extra["alloc_bound_const_bytes"] = allocConst
	g.res.Extra["slice_cap_rule"] = "cap > 4*len+16 of any slice of a decoded object is a hit (primary, deterministic); allocation bounds are secondary"
	for _, tn := range largeTypes {
		e := entryByName(tn)
		if e == nil {
			continue
		}
		for _, n := range largeCounts {
			p := e.mk()
			m := sweepMode{enum: 1, blen: 2, wide: 1, list: 0, listN: n}
			sweep = &m
			curInvalid = false
			func() {
				defer func() { recover(); sweep = nil }()
				fill(g.r, p.Elem(), ftag{}, 0)
			}()
			g.largeContainerCheck(e, p, n, modelChecked(tn, n))
		}
	}
}
