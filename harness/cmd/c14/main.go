// C14 harness: drives the real rlp package and the node's wire/disk types of
// the working tree.
//
//	c14 schemas -out coq/gen/C14Schemas.v   T4 translator: schema of every listed type by reflection
//	c14 gen -seed S -n N -out DIR           values + hostile bytes through rlp.EncodeToBytes /
//	                                        rlp.DecodeBytes (+ HandleMsg / ApplyMessage), Cases.v, oracle
//	c14 replay -file F                      re-runs one stored input
package main

import (
	"bytes"
	"encoding/hex"
	"encoding/json"
	"flag"
	"fmt"
	"io/ioutil"
	"os"
	"os/exec"
	"path/filepath"
	"reflect"
	"runtime"
	"sort"
	"strings"

	"github.com/youchainhq/go-youchain/common"
	"github.com/youchainhq/go-youchain/consensus/ucon"
	"github.com/youchainhq/go-youchain/core/state"
	"github.com/youchainhq/go-youchain/core/types"
	"github.com/youchainhq/go-youchain/logging"
	"github.com/youchainhq/go-youchain/params"
	"github.com/youchainhq/go-youchain/rlp"
	"github.com/youchainhq/go-youchain/staking"
	"github.com/youchainhq/go-youchain/youdb"
	"verif/harness/vf"
)

// ---- inventory ------------------------------------------------------------------

type entry struct {
	id     int
	name   string
	t      reflect.Type
	mk     func() reflect.Value // pointer to a fresh decode target
	weight int
	group  string // class named in the property
	via    []viaFn // the functions of the node that decode this type from bytes
}

// a real entry point: the function the node itself calls on untrusted (or stored) bytes
type viaFn struct {
	name   string
	stream bool // known to read one value and leave the rest (listed finding)
	dec    func(b []byte) (reflect.Value, error)
}

func addVia(typeName string, v viaFn) {
	e := entryByName(typeName)
	if e == nil {
		panic("no entry " + typeName)
	}
	e.via = append(e.via, v)
}

func initVia() {
	addVia("UconMessage", viaFn{name: "ucon.Decode", dec: func(b []byte) (reflect.Value, error) {
		m, err := ucon.Decode(b)
		if err != nil {
			return reflect.Value{}, err
		}
		return reflect.ValueOf(m), nil
	}})
	payload := func(mk func() interface{}) func(b []byte) (reflect.Value, error) {
		return func(b []byte) (reflect.Value, error) {
			o := mk()
			err := (&ucon.Message{Payload: b}).DecodePayload(o)
			return reflect.ValueOf(o), err
		}
	}
	addVia("ConsensusCommon", viaFn{name: "ucon.Message.DecodePayload", dec: payload(func() interface{} { return &ucon.ConsensusCommon{} })})
	addVia("Block", viaFn{name: "ucon.Message.DecodePayload", dec: payload(func() interface{} { return &types.Block{} })})
	addVia("BlockHashWithVotes", viaFn{name: "ucon.Message.DecodePayload", dec: payload(func() interface{} { return &ucon.BlockHashWithVotes{} })})
	addVia("BlockConsensusData", viaFn{name: "ucon.ExtractConsensusData", dec: func(b []byte) (reflect.Value, error) {
		d, err := ucon.ExtractConsensusData(&types.Header{Consensus: b})
		if err != nil {
			return reflect.Value{}, err
		}
		return reflect.ValueOf(d), nil
	}})
	for _, lb := range []params.LookBackType{params.LookBackPos, params.LookBackCert} {
		lb := lb
		addVia("UconValidators", viaFn{name: "ucon.ExtractUconValidators", dec: func(b []byte) (reflect.Value, error) {
			d, err := ucon.ExtractUconValidators(&types.Header{Validator: b, Certificate: b}, lb)
			if err != nil {
				return reflect.Value{}, err
			}
			if d == nil {
				return reflect.Value{}, fmt.Errorf("nil result")
			}
			return reflect.ValueOf(d), nil
		}})
	}
	addVia("VoteItem", viaFn{name: "ucon.ReadVoteData", stream: true, dec: func(b []byte) (reflect.Value, error) {
		db := youdb.NewMemDatabase()
		addr := common.Address{7}
		if err := db.Put(ucon.AddrTypeKey(addr, ucon.Prevote, 1), b); err != nil {
			return reflect.Value{}, err
		}
		v := ucon.ReadVoteData(db, addr, ucon.Prevote, 1)
		if v == nil {
			return reflect.Value{}, fmt.Errorf("rejected")
		}
		return reflect.ValueOf(v), nil
	}})
}

func (e *entry) pickVia(r *vf.Rng) *viaFn {
	if len(e.via) == 0 || r.Chance(40) {
		return nil
	}
	return &e.via[r.Intn(len(e.via))]
}

var entries []*entry

func addEntry(name, group string, weight int, sample interface{}, mk func() interface{}) {
	t := reflect.TypeOf(sample)
	e := &entry{id: len(entries), name: name, t: t, weight: weight, group: group}
	if mk != nil {
		e.mk = func() reflect.Value { return reflect.ValueOf(mk()) }
	} else {
		e.mk = func() reflect.Value { return reflect.New(t) }
	}
	entries = append(entries, e)
}

func initEntries() {
	pr := state.VerifC14NewPendingRelationship()
	pendingRelT = reflect.TypeOf(pr).Elem()
	initCustoms()
	// order = ids used in Cases.v; append only
	addEntry("Header", "header", 3, types.Header{}, nil)
	addEntry("Block", "block", 3, types.Block{}, nil)
	addEntry("Transaction", "transaction", 8, types.Transaction{}, nil)
	addEntry("Receipt", "receipt", 3, types.Receipt{}, nil)
	addEntry("ReceiptForStorage", "receipt", 2, types.ReceiptForStorage{}, nil)
	addEntry("Log", "receipt", 2, types.Log{}, nil)
	addEntry("Body", "block", 2, types.Body{}, nil)
	addEntry("Transactions", "transaction", 2, []*types.Transaction{}, nil)
	addEntry("Headers", "header", 1, []*types.Header{}, nil)
	addEntry("Validator", "validator", 8, state.Validator{}, nil)
	addEntry("ValKindStat", "statistics", 3, state.ValKindStat{}, nil)
	addEntry("ValidatorsStat", "statistics", 3, state.ValidatorsStat{}, func() interface{} { return state.NewValidatorsStat() })
	addEntry("Validators", "validator", 2, state.Validators{}, nil)
	addEntry("ValidatorIndex", "validator", 5, state.ValidatorIndex{}, func() interface{} { return state.NewValidatorIndex() })
	addEntry("pendingRelationship", "validator", 3, reflect.New(pendingRelT).Elem().Interface(), func() interface{} { return state.VerifC14NewPendingRelationship() })
	addEntry("WithdrawRecord", "withdraw", 3, state.WithdrawRecord{}, nil)
	addEntry("WithdrawQueue", "withdraw", 3, state.WithdrawQueue{}, func() interface{} { return state.NewWithdrawQueue() })
	addEntry("DelegationFroms", "validator", 2, state.DelegationFroms{}, nil)
	addEntry("DelegationTos", "validator", 2, state.DelegationTos{}, nil)
	addEntry("Record", "validator", 2, state.Record{}, nil)
	addEntry("UconMessage", "consensus", 6, ucon.Message{}, nil)
	addEntry("ConsensusCommon", "consensus", 4, ucon.ConsensusCommon{}, nil)
	addEntry("BlockHashWithVotes", "consensus", 5, ucon.BlockHashWithVotes{}, nil)
	addEntry("UconValidators", "votecontainer", 5, ucon.UconValidators{}, nil)
	addEntry("BlockConsensusData", "consensus", 4, ucon.BlockConsensusData{}, nil)
	addEntry("VoteItem", "consensus", 3, ucon.VoteItem{}, nil)
	addEntry("StakingMessage", "staking", 4, staking.Message{}, nil)
	addEntry("TxCreateValidator", "staking", 3, staking.TxCreateValidator{}, nil)
	addEntry("TxUpdateValidator", "staking", 2, staking.TxUpdateValidator{}, nil)
	addEntry("TxValidatorDeposit", "staking", 2, staking.TxValidatorDeposit{}, nil)
	addEntry("TxValidatorWithdraw", "staking", 2, staking.TxValidatorWithdraw{}, nil)
	addEntry("TxValidatorChangeStatus", "staking", 2, staking.TxValidatorChangeStatus{}, nil)
	addEntry("TxValidatorSettle", "staking", 1, staking.TxValidatorSettle{}, nil)
	addEntry("TxDelegation", "staking", 2, staking.TxDelegation{}, nil)
	addEntry("TxDelegationSettle", "staking", 1, staking.TxDelegationSettle{}, nil)
	addEntry("Evidences", "evidence", 4, []staking.Evidence{}, nil)
	addEntry("EvidenceDoubleSign", "evidence", 6, staking.EvidenceDoubleSign{}, nil)
	addEntry("EvidenceInactive", "evidence", 3, staking.EvidenceInactive{}, nil)
	addEntry("EvidenceDoubleSignV5", "evidence", 4, staking.EvidenceDoubleSignV5{}, nil)
	addEntry("LogData", "staking", 2, staking.LogData{}, nil)
	addEntry("SlashData", "evidence", 4, staking.SlashData{}, nil)
	addEntry("MarkedBlockInfo", "consensus", 1, ucon.MarkedBlockInfo{}, nil)
	addEntry("AddrVoteStatus", "consensus", 2, ucon.AddrVoteStatus{}, nil)
	addEntry("UpgradeVote", "header", 1, types.UpgradeVote{}, nil)
	// package you cannot be linked into the harness (its quic-go dependency panics at
	// init under this toolchain): the wire structs of you/protocol.go are mirrored in
	// mirror.go and compared with the source text by the translator (checkMirrors).
	addEntry("statusData", "protocol", 2, statusData{}, nil)
	addEntry("getBlockHeadersData", "protocol", 3, getBlockHeadersData{}, nil)
	addEntry("NewBlockHashesData", "protocol", 2, NewBlockHashesData{}, nil)
	addEntry("BlocksData", "protocol", 1, BlocksData{}, nil)
	addEntry("GetNodeDataMsgData", "protocol", 2, GetNodeDataMsgData{}, nil)
	addEntry("Receipts", "receipt", 1, []*types.Receipt{}, nil)
	initVia()
}

func pickEntry(r *vf.Rng) *entry {
	tot := 0
	for _, e := range entries {
		tot += e.weight
	}
	k := r.Intn(tot)
	for _, e := range entries {
		if k < e.weight {
			return e
		}
		k -= e.weight
	}
	return entries[0]
}

// ---- translator sub-command -----------------------------------------------------------

func schemasCmd(out string) {
	checkMirrors()
	tr := &translator{names: map[reflect.Type]string{}}
	var tbl []string
	for _, e := range entries {
		s := tr.schema(e.t, ftag{})
		tbl = append(tbl, fmt.Sprintf("(%d, %s) (* %s *)", e.id, s, e.name))
	}
	var sb strings.Builder
	sb.WriteString("(* GENERATED by harness/cmd/c14 (schemas) from the types of the working tree by reflection. Do not edit. *)\n")
	sb.WriteString("From VF.C14 Require Import Model.\nLocal Open Scope N_scope.\n")
	for _, d := range tr.defs {
		sb.WriteString(d + "\n")
	}
	sb.WriteString("Definition all_schemas : table := [\n  " + strings.Join(tbl, ";\n  ") + "].\n")
	vf.WriteIfChanged(out, sb.String())
}

// ---- running the implementation --------------------------------------------------------

var memStats runtime.MemStats

func allocated() uint64 {
	runtime.ReadMemStats(&memStats)
	return memStats.TotalAlloc
}

type obs struct {
	Accepted bool
	Err      string
	Panic    string
	Alloc    uint64
	obj      reflect.Value
}

// the input being decoded is left on disk first: a fatal runtime error (out of
// memory, stack exhaustion) cannot be recovered and would otherwise lose it
var lastInputFile string

func goDecode(e *entry, b []byte, measure bool) (o obs) {
	if lastInputFile != "" && measure {
		ioutil.WriteFile(lastInputFile, []byte(fmt.Sprintf("{\"what\":\"fatal-runtime-error-while-decoding\",\"type\":%q,\"bytes\":%q}\n", e.name, hex.EncodeToString(b))), 0644)
	}
	o.obj = e.mk()
	var a0 uint64
	if measure {
		a0 = allocated()
	}
	func() {
		defer func() {
			if x := recover(); x != nil {
				o.Panic = fmt.Sprint(x)
			}
		}()
		err := rlp.DecodeBytes(b, o.obj.Interface())
		if err != nil {
			o.Err = err.Error()
		} else {
			o.Accepted = true
		}
	}()
	if measure {
		o.Alloc = allocated() - a0
	}
	return o
}

// the same observation through a real entry point of the node
func goDecodeVia(e *entry, v *viaFn, b []byte) (o obs) {
	if lastInputFile != "" {
		ioutil.WriteFile(lastInputFile, []byte(fmt.Sprintf("{\"what\":\"fatal-runtime-error-while-decoding\",\"type\":%q,\"via\":%q,\"bytes\":%q}\n", e.name, v.name, hex.EncodeToString(b))), 0644)
	}
	a0 := allocated()
	func() {
		defer func() {
			if x := recover(); x != nil {
				o.Panic = fmt.Sprint(x)
			}
		}()
		obj, err := v.dec(b)
		if err != nil {
			o.Err = err.Error()
		} else {
			o.Accepted, o.obj = true, obj
		}
	}()
	o.Alloc = allocated() - a0
	return o
}

func goEncode(p reflect.Value) (b []byte, errs string, pan string) {
	func() {
		defer func() {
			if x := recover(); x != nil {
				pan = fmt.Sprint(x)
			}
		}()
		var err error
		b, err = rlp.EncodeToBytes(p.Interface())
		if err != nil {
			errs = err.Error()
		}
	}()
	return
}

func projObj(p reflect.Value) (m MV, pan string) {
	func() {
		defer func() {
			if x := recover(); x != nil {
				pan = fmt.Sprint(x)
			}
		}()
		m = proj(p.Elem(), ftag{})
	}()
	return
}

// what p2p Msg.Decode and the database readers do: a Stream limited to the
// input, one value decoded, the rest left unread
func isTooLarge(err string) bool {
	return strings.Contains(err, "value size exceeds available input length")
}

func goDecodeStream(e *entry, b []byte) (o obs, unread int) {
	if lastInputFile != "" {
		ioutil.WriteFile(lastInputFile, []byte(fmt.Sprintf("{\"what\":\"fatal-runtime-error-while-decoding\",\"type\":%q,\"mode\":\"stream\",\"bytes\":%q}\n", e.name, hex.EncodeToString(b))), 0644)
	}
	o.obj = e.mk()
	rd := bytes.NewReader(b)
	a0 := allocated()
	defer func() { o.Alloc = allocated() - a0 }()
	func() {
		defer func() {
			if x := recover(); x != nil {
				o.Panic = fmt.Sprint(x)
			}
		}()
		err := rlp.NewStream(rd, uint64(len(b))).Decode(o.obj.Interface())
		if err != nil {
			o.Err = err.Error()
		} else {
			o.Accepted = true
		}
	}()
	return o, rd.Len()
}

func (g *genState) streamCase(e *entry, b []byte, mut string) {
	if len(b) == 0 {
		return // NewStream(r, 0) means "no limit"
	}
	o, unread := goDecodeStream(e, b)
	c := Case{Kind: "stream", Type: e.name, ty: e.id, Bytes: hex.EncodeToString(b), Mut: mut}
	if o.Panic != "" {
		g.hit(hit{What: "panic:decode-stream:" + e.name, Type: e.name, Bytes: c.Bytes, Note: o.Panic})
		return
	}
	if o.Alloc > allocBound(len(b)) {
		g.hit(hit{What: "allocation-far-beyond-input:" + e.name, Type: e.name, Bytes: c.Bytes, Mode: "stream", Note: fmt.Sprintf("%d bytes allocated for %d bytes of input", o.Alloc, len(b))})
	}
	if !o.Accepted {
		g.res.Count("stream_reject")
		if isTooLarge(o.Err) {
			g.res.Count("stream_reject:value_size_exceeds_available_input_length")
		}
		c.coq = fmt.Sprintf("PRej %d true %s %s", e.id, byteList(b), vf.Bool(isTooLarge(o.Err)))
		g.add(c)
		return
	}
	re, errs, pan := goEncode(o.obj)
	if pan != "" || errs != "" {
		g.hit(hit{What: "panic:reencode-accepted:" + e.name, Type: e.name, Bytes: c.Bytes, Note: pan + errs})
		return
	}
	c.Acc, c.Re = true, hex.EncodeToString(re)
	g.hashOracle(e, o.obj, b[:len(b)-unread], re, "")
	g.capOracle(e, o.obj, b, "")
	read := b[:len(b)-unread]
	if bytes.Equal(re, read) {
		g.res.Count("stream_accept_canonical")
	} else {
		cl := classify(e, read, re)
		g.res.Count("stream_accept_noncanonical:" + cl)
		what := "noncanonical-accept:" + cl
		if cl == "" {
			what = "noncanonical-accept:unclassified:" + e.name
		}
		g.hit(hit{What: what, Type: e.name, Bytes: hex.EncodeToString(read), Re: c.Re, Note: "stream " + mut})
	}
	if unread > 0 {
		g.res.Count("stream_accept_with_unread_bytes")
		g.hit(hit{What: trailingKey, Type: e.name, Bytes: c.Bytes, Re: c.Re, Mode: "stream", Note: fmt.Sprintf("%d bytes after the value were tolerated (%s)", unread, mut)})
	}
	c.coq = fmt.Sprintf("PStream %d %s (Some (%s, %d))", e.id, byteList(b), byteList(re), unread)
	g.add(c)
}

// the listed finding: call sites that read one value from a stream accept anything after it
const trailingKey = "noncanonical-accept:trailing-bytes-tolerated:stream-call-site"

// a real entry point that is known to be stream-style (v.stream): the number of
// unread bytes is not observable, the reference parser tells where the first value ends
func (g *genState) streamViaCase(e *entry, v *viaFn, b []byte, mut string) {
	if len(b) == 0 {
		return
	}
	o := goDecodeVia(e, v, b)
	g.res.Count("via:" + v.name)
	c := Case{Kind: "stream", Type: e.name, ty: e.id, Bytes: hex.EncodeToString(b), Mut: mut, Via: v.name}
	if o.Panic != "" {
		g.hit(hit{What: "panic:decode:" + e.name, Type: e.name, Bytes: c.Bytes, Note: o.Panic, Via: v.name})
		return
	}
	if !o.Accepted {
		g.res.Count("stream_reject")
		c.coq = fmt.Sprintf("PStream %d %s None", e.id, byteList(b))
		g.add(c)
		return
	}
	re, errs, pan := goEncode(o.obj)
	_, rest, perr := parse(b, 0)
	if pan != "" || errs != "" || perr != nil {
		g.hit(hit{What: "noncanonical-accept:unclassified:" + e.name, Type: e.name, Bytes: c.Bytes, Note: "accepted by " + v.name + " " + pan + errs, Via: v.name})
		return
	}
	unread := len(rest)
	c.Acc, c.Re = true, hex.EncodeToString(re)
	if !bytes.Equal(re, b[:len(b)-unread]) {
		cl := classify(e, b[:len(b)-unread], re)
		what := "noncanonical-accept:" + cl
		if cl == "" {
			what = "noncanonical-accept:unclassified:" + e.name
		}
		g.hit(hit{What: what, Type: e.name, Bytes: c.Bytes, Re: c.Re, Note: mut, Via: v.name})
	} else {
		g.res.Count("stream_accept_canonical")
	}
	if unread > 0 {
		g.res.Count("stream_accept_with_unread_bytes")
		g.hit(hit{What: trailingKey, Type: e.name, Bytes: c.Bytes, Re: c.Re, Via: v.name, Note: fmt.Sprintf("%d bytes after the value were tolerated (%s)", unread, mut)})
	}
	c.coq = fmt.Sprintf("PStream %d %s (Some (%s, %d))", e.id, byteList(b), byteList(re), unread)
	g.add(c)
}

// ---- cases -------------------------------------------------------------------------------

type Case struct {
	Kind  string `json:"kind"` // enc | dec | item
	Type  string `json:"type,omitempty"`
	ty    int
	Bytes string `json:"bytes"` // hex
	Value *MV    `json:"value,omitempty"`
	RT    bool   `json:"rt,omitempty"`
	Acc   bool   `json:"accepted,omitempty"`
	Re    string `json:"reencoded,omitempty"`
	Mut   string `json:"mutation,omitempty"`
	Via   string `json:"via,omitempty"`
	coq   string
}

type hit struct {
	Expect string `json:"expect,omitempty"` // corpus only: "reject" = a repaired finding, the input must be rejected
	What  string `json:"what"`
	Type  string `json:"type"`
	Bytes string `json:"bytes"`
	Re    string `json:"reencoded,omitempty"`
	Note  string `json:"note,omitempty"`
	Via   string `json:"via,omitempty"`  // entry point used (default rlp.DecodeBytes)
	Mode  string `json:"mode,omitempty"` // corpus: "stream" = offer through a Stream as p2p Msg.Decode does
	Value *MV    `json:"value,omitempty"`
}

func entryByName(n string) *entry {
	for _, e := range entries {
		if e.name == n {
			return e
		}
	}
	return nil
}

// ---- oracle ---------------------------------------------------------------------------------

// allocation allowance for decoding b: the decoders allocate the target
// structures (a few hundred bytes per decoded element, slices grow by 1.5x).
func allocBound(n int) uint64 { return 1<<16 + 1024*uint64(n) }

// classify names the finding class of an accepted input that does not
// re-encode to itself, by comparing the two item trees; "" = not a listed class.
func classify(e *entry, b, re []byte) string {
	a, err1 := parseAll(b)
	c, err2 := parseAll(re)
	if err1 != nil {
		return "accepted-bytes-not-canonical-rlp"
	}
	if err2 != nil {
		return "encoder-output-not-canonical-rlp"
	}
	if e.name == "EvidenceDoubleSign" {
		o1 := goDecode(e, b, false)
		o2 := goDecode(e, re, false)
		if o1.Accepted && o2.Accepted {
			m1, _ := projObj(o1.obj)
			m2, _ := projObj(o2.obj)
			// since 201ba78 wrong hash lengths and duplicates are rejected and the encoder
			// sorts: an accepted input with the same value differs only in the order
			if mvEq(m1, m2) {
				return "evidencedoublesign-unsorted-order"
			}
		}
	}
	// first differing place
	var path []int
	var x, y *Item
	var walk func(p, q *Item) bool
	walk = func(p, q *Item) bool {
		if p.IsList != q.IsList || (!p.IsList && !bytes.Equal(p.B, q.B)) || len(p.L) != len(q.L) {
			x, y = p, q
			return true
		}
		for i := range p.L {
			path = append(path, i)
			if walk(p.L[i], q.L[i]) {
				return true
			}
			path = path[:len(path)-1]
		}
		return false
	}
	if !walk(a, c) {
		return ""
	}
	// rlp:"nil": the other empty kind was accepted for a nil pointer
	if x.IsList && len(x.L) == 0 && !y.IsList && len(y.B) == 0 {
		return "nil-pointer-either-empty-kind"
	}
	if !x.IsList && len(x.B) == 0 && y.IsList && len(y.L) == 0 {
		return "nil-pointer-either-empty-kind"
	}
	return ""
}

// ---- gen ---------------------------------------------------------------------------------------

type genState struct {
	r        *vf.Rng
	res      *vf.Result
	cases    []Case
	distinct map[string]bool
	valid    map[string][][]byte // valid encodings per type, seeds for mutation
	others   []interface{}       // objects generated earlier, encoded between the reads of the reader path
	nvalue   int
	nhash    int
	maxRatio float64
}

func (g *genState) hit(h hit) {
	g.res.OracleHits = append(g.res.OracleHits, h)
}


// one generated value of type e through the encoder and back
func (g *genState) valueCase(e *entry) {
	r := g.r
	p := e.mk()
	curInvalid = false
	fill(r, p.Elem(), ftag{}, 0)
	invalid := curInvalid
	mv, pp := projObj(p)
	if pp != "" {
		g.hit(hit{What: "panic-in-harness-projection", Type: e.name, Note: pp})
		return
	}
	if hasNilPtr(e, mv) {
		invalid = true
	}
	b, errs, pan := goEncode(p)
	if pan != "" {
		if invalid {
			g.res.Count("encode_panic_on_invalid_value")
			return
		}
		g.hit(hit{What: "panic:encode:" + e.name, Type: e.name, Note: pan, Value: &mv})
		return
	}
	if errs != "" {
		g.res.Count("encode_error")
		return
	}
	// determinism of the encoder
	for i := 0; i < 3; i++ {
		b2, _, _ := goEncode(p)
		if !bytes.Equal(b, b2) {
			what := "encoding-not-deterministic:" + e.name
			g.hit(hit{What: what, Type: e.name, Bytes: hex.EncodeToString(b), Re: hex.EncodeToString(b2), Value: &mv})
			g.res.Count("nondeterministic_encoding")
			break
		}
	}
	// the encoder's reader and writer outputs are observations of the same encoding
	g.nvalue++
	viaReader := g.readerPath(e, p, b, &mv, g.nvalue, g.nvalue/5)
	if !bytes.Equal(viaReader, b) || g.nvalue%4 == 0 {
		rc := Case{Kind: "enc-reader", Type: e.name, ty: e.id, Bytes: hex.EncodeToString(viaReader), Value: &mv}
		rc.coq = fmt.Sprintf("PEncR %d (%s) %s", e.id, mv.Coq(), byteList(viaReader))
		g.add(rc)
	}
	if len(b) > 200 && len(g.others) < 24 && !invalid {
		g.others = append(g.others, p.Interface())
	}
	o := goDecode(e, b, true)
	rt := false
	if o.Panic != "" {
		g.hit(hit{What: "panic:decode:" + e.name, Type: e.name, Bytes: hex.EncodeToString(b), Note: o.Panic})
		return
	}
	if o.Accepted {
		mv2, _ := projObj(o.obj)
		rt = mvEq(mv, mv2)
		b3, _, _ := goEncode(o.obj)
		if rt && !bytes.Equal(b3, b) {
			g.hit(hit{What: "roundtrip-bytes-differ:" + e.name, Type: e.name, Bytes: hex.EncodeToString(b), Re: hex.EncodeToString(b3)})
		}
	}
	if !rt && !invalid {
		g.hit(hit{What: "roundtrip-value-differs:" + e.name, Type: e.name, Bytes: hex.EncodeToString(b), Note: o.Err, Value: &mv})
	}
	if rt {
		g.res.Count("value_roundtrip_ok")
		g.valid[e.name] = append(g.valid[e.name], b)
	} else {
		g.res.Count("value_not_read_back(invalid value)")
	}
	g.res.Count("value:" + e.group)
	c := Case{Kind: "enc", Type: e.name, ty: e.id, Bytes: hex.EncodeToString(b), Value: &mv, RT: rt}
	c.coq = fmt.Sprintf("PEnc %d (%s) %s %s", e.id, mv.Coq(), vf.Bool(rt), byteList(b))
	g.add(c)
}

var curInvalid bool

// a value is outside the round-trip domain if it holds a nil pointer that is
// not rlp:"nil" (written as an empty value, read back as a fresh object or rejected)
func hasNilPtr(e *entry, m MV) bool {
	if e.name == "Transaction" || e.name == "Transactions" || e.name == "Block" || e.name == "Body" || e.name == "MarkedBlockInfo" || e.name == "BlocksData" {
		return false // txdata.Recipient is rlp:"nil"; other pointers there are filled non-nil except with 2% chance (flagged by curInvalid)
	}
	return hasNil(m)
}

func (g *genState) add(c Case) {
	key := c.Kind + ":" + c.Type + ":" + c.Bytes
	if c.Kind != "enc" || len(c.Bytes) > 4 {
		g.distinct[key] = true
	}
	g.cases = append(g.cases, c)
}

// bytes b offered to the decoder of type e
func (g *genState) bytesCase(e *entry, b []byte, mut string) {
	g.bytesCaseVia(e, e.pickVia(g.r), b, mut)
}

func viaByName(e *entry, n string) *viaFn {
	for i := range e.via {
		if e.via[i].name == n {
			return &e.via[i]
		}
	}
	return nil
}

// bytes b offered to type e through rlp.DecodeBytes (v == nil) or through the entry point v
func (g *genState) bytesCaseVia(e *entry, v *viaFn, b []byte, mut string) {
	if v != nil && v.stream {
		g.streamViaCase(e, v, b, mut)
		return
	}
	var o obs
	c := Case{Kind: "dec", Type: e.name, ty: e.id, Bytes: hex.EncodeToString(b), Mut: mut}
	if v != nil {
		o = goDecodeVia(e, v, b)
		c.Via = v.name
		g.res.Count("via:" + v.name)
	} else {
		o = goDecode(e, b, true)
	}
	if o.Panic != "" {
		g.hit(hit{What: "panic:decode:" + e.name, Type: e.name, Bytes: c.Bytes, Note: o.Panic, Via: c.Via})
		g.res.Count("decode_panic")
		return
	}
	if o.Alloc > allocBound(len(b)) {
		g.hit(hit{What: "allocation-far-beyond-input:" + e.name, Type: e.name, Bytes: c.Bytes, Note: fmt.Sprintf("%d bytes allocated for %d bytes of input", o.Alloc, len(b))})
	}
	if ratio := float64(o.Alloc) / float64(len(b)+64); ratio > g.maxRatio {
		g.maxRatio = ratio
	}
	if !o.Accepted {
		g.res.Count("reject:" + errClass(o.Err))
		if v == nil {
			// the verdict class is compared too: "value size exceeds available input length"
			c.coq = fmt.Sprintf("PRej %d false %s %s", e.id, byteList(b), vf.Bool(isTooLarge(o.Err)))
		} else {
			c.coq = fmt.Sprintf("PDec %d %s None", e.id, byteList(b))
		}
		g.add(c)
		return
	}
	mv, pp := projObj(o.obj)
	re, errs, pan := goEncode(o.obj)
	if pan != "" || pp != "" || errs != "" {
		g.hit(hit{What: "panic:reencode-accepted:" + e.name, Type: e.name, Bytes: c.Bytes, Note: pan + pp + errs})
		return
	}
	c.Acc, c.Re, c.Value = true, hex.EncodeToString(re), &mv
	g.ownershipOracle(e, v, b)
	g.capOracle(e, o.obj, b, c.Via)
	// one hash per value: also for the accepted-but-not-canonical inputs
	if pre, digest := g.hashOracle(e, o.obj, b, re, c.Via); digest && v == nil {
		g.nhash++
		if !bytes.Equal(re, b) || !bytes.Equal(pre, re) || g.nhash%8 == 0 {
			hc := Case{Kind: "hash", Type: e.name, ty: e.id, Bytes: hex.EncodeToString(b), Re: hex.EncodeToString(pre), Mut: mut}
			hc.coq = fmt.Sprintf("PHash %d %s %s", e.id, byteList(b), byteList(pre))
			g.add(hc)
		}
	}
	if bytes.Equal(re, b) {
		g.res.Count("accept_canonical")
		if mut != "none" && mut != "valid" {
			g.res.Count("accept_canonical_after_mutation")
		}
	} else {
		cl := classify(e, b, re)
		g.res.Count("accept_noncanonical:" + cl)
		what := "noncanonical-accept:" + cl
		if cl == "" {
			what = "noncanonical-accept:unclassified:" + e.name
		}
		g.hit(hit{What: what, Type: e.name, Bytes: c.Bytes, Re: c.Re, Note: mut, Via: c.Via})
	}
	if bytes.Equal(re, b) {
		c.coq = fmt.Sprintf("PDecSame %d %s", e.id, byteList(b))
	} else {
		c.coq = fmt.Sprintf("PDec %d %s (Some %s)", e.id, byteList(b), byteList(re))
	}
	g.add(c)
}

func errClass(s string) string {
	for _, k := range []string{"non-canonical integer", "non-canonical size", "expected input list", "expected input string",
		"input string too long", "input string too short", "too many elements", "too few elements", "element is larger than containing list",
		"value size exceeds available input length", "more than one value", "invalid boolean", "uint overflow", "unexpected EOF", "EOF", "invalid receipt status",
		"expected List", "expected String"} {
		if strings.Contains(s, k) {
			return strings.Replace(k, " ", "_", -1)
		}
	}
	return "other"
}

func (g *genState) itemCase(b []byte) {
	var v interface{}
	var errs, pan string
	func() {
		defer func() {
			if x := recover(); x != nil {
				pan = fmt.Sprint(x)
			}
		}()
		if err := rlp.DecodeBytes(b, &v); err != nil {
			errs = err.Error()
		}
	}()
	c := Case{Kind: "item", Bytes: hex.EncodeToString(b)}
	if pan != "" {
		g.hit(hit{What: "panic:decode:interface", Type: "interface", Bytes: c.Bytes, Note: pan})
		return
	}
	_, refErr := parseAll(b)
	if (errs == "") != (refErr == nil) {
		g.hit(hit{What: "generic-decoder-disagrees-with-reference-parser", Type: "interface", Bytes: c.Bytes, Note: errs})
	}
	if errs != "" {
		g.res.Count("item_reject:" + errClass(errs))
		c.coq = fmt.Sprintf("PItem %s None", byteList(b))
		g.add(c)
		return
	}
	re, err := rlp.EncodeToBytes(v)
	if err != nil || !bytes.Equal(re, b) {
		g.hit(hit{What: "noncanonical-accept:interface", Type: "interface", Bytes: c.Bytes, Re: hex.EncodeToString(re)})
	}
	g.res.Count("item_accept")
	c.Acc, c.Re = true, hex.EncodeToString(re)
	if bytes.Equal(re, b) {
		c.coq = fmt.Sprintf("PItemSame %s", byteList(b))
	} else {
		c.coq = fmt.Sprintf("PItem %s (Some %s)", byteList(b), byteList(re))
	}
	g.add(c)
}

func (g *genState) hostile(e *entry) ([]byte, string) {
	r := g.r
	seeds := g.valid[e.name]
	if len(seeds) == 0 || r.Chance(6) {
		if r.Bool() {
			return r.Bytes(r.Heavy(64)), "random-bytes"
		}
		return enc(randItem(r, 0)), "random-item"
	}
	b := seeds[r.Intn(len(seeds))]
	if r.Chance(14) { // something after a complete, valid value
		c := append([]byte{}, b...)
		switch r.Intn(5) {
		case 0:
			return append(c, 0x00), "tail:zero-byte"
		case 1:
			return append(c, 0x80), "tail:empty-string"
		case 2:
			return append(c, r.Bytes(1+r.Heavy(40))...), "tail:garbage"
		case 3:
			return append(c, seeds[r.Intn(len(seeds))]...), "tail:second-value"
		default:
			if len(c) < 1500 {
				return append(c, r.Bytes(4096)...), "tail:4k-junk"
			}
			return append(c, 0xc0), "tail:empty-list"
		}
	}
	if r.Chance(25) { // byte-level
		c := append([]byte{}, b...)
		switch r.Intn(5) {
		case 0:
			if len(c) > 0 {
				c[r.Intn(len(c))] ^= 1 << uint(r.Intn(8))
			}
			return c, "byte-flip"
		case 1:
			return c[:r.Intn(len(c)+1)], "truncate"
		case 2:
			return append(c, r.Bytes(1+r.Intn(3))...), "trailing-bytes"
		case 3:
			if len(c) > 0 {
				c[r.Intn(len(c))] = byte(r.Pick([]uint64{0, 0x7f, 0x80, 0x81, 0xb7, 0xb8, 0xbf, 0xc0, 0xc1, 0xf7, 0xf8, 0xff}))
			}
			return c, "byte-to-boundary"
		default:
			i := r.Intn(len(c) + 1)
			return append(append(append([]byte{}, c[:i]...), byte(r.Intn(256))), c[i:]...), "insert-byte"
		}
	}
	it, err := parseAll(b)
	if err != nil {
		return b, "valid"
	}
	m := mutateTree(r, it)
	if r.Chance(20) {
		m += "+" + mutateTree(r, it)
	}
	return enc(it), m
}

func loadCorpus(dir string) []hit {
	var out []hit
	files, _ := filepath.Glob(filepath.Join(dir, "*.json"))
	sort.Strings(files)
	for _, f := range files {
		b, err := ioutil.ReadFile(f)
		if err != nil {
			continue
		}
		var h hit
		if json.Unmarshal(b, &h) == nil && h.Type != "" {
			out = append(out, h)
		}
	}
	return out
}

func gen(seed uint64, n int, outDir, corpusDir string) {
	g := &genState{r: vf.NewRng(seed), res: vf.NewResult("C14", seed), distinct: map[string]bool{}, valid: map[string][][]byte{}}
	r := g.r
	lastInputFile = filepath.Join(outDir, "last_input.json")
	for _, h := range loadCorpus(corpusDir) {
		b, _ := hex.DecodeString(h.Bytes)
		if h.Type == "interface" {
			g.itemCase(b)
		} else if h.Mode == "vrf-handler" {
			res, pan := runVrfHandleMsg(b)
			kind := "corpus"
			if strings.Contains(h.What, "owner-forged") {
				kind = "corpus-owner-forged"
			}
			g.vrfObs(kind, "corpus", b, res, pan)
			if pan == "" && h.Expect == "reject" && res != "reject" {
				g.hit(hit{What: "regression:repaired-finding-accepted-again:HandleMsg", Type: h.Type, Mode: h.Mode, Bytes: h.Bytes, Note: h.Note})
			}
		} else if e := entryByName(h.Type); e != nil && h.Mode == "stream" {
			g.streamCase(e, b, "corpus")
		} else if e := entryByName(h.Type); e != nil {
			g.bytesCaseVia(e, viaByName(e, h.Via), b, "corpus")
			if h.Expect == "reject" && goDecode(e, b, false).Accepted {
				g.hit(hit{What: "regression:repaired-finding-accepted-again:" + e.name, Type: e.name, Bytes: h.Bytes, Note: h.Note})
			}
		}
		g.res.Count("corpus")
	}
	// one valid value of every type first, so that every decoder is reached in every shard
	for _, e := range entries {
		for k := 0; k < 2; k++ {
			g.valueCase(e)
		}
	}
	for len(g.cases) < n {
		e := pickEntry(r)
		switch k := r.Intn(100); {
		case k < 30:
			g.valueCase(e)
		case k < 92:
			b, m := g.hostile(e)
			if len(b) > 6000 {
				continue
			}
			if r.Chance(22) {
				g.streamCase(e, b, m)
			} else {
				g.bytesCase(e, b, m)
			}
		default:
			if r.Bool() {
				g.itemCase(r.Bytes(r.Heavy(48)))
			} else {
				it := randItem(r, 0)
				if r.Chance(40) {
					mutateTree(r, it)
				}
				g.itemCase(enc(it))
			}
		}
	}
	// containers large enough to outgrow the encoder's pooled buffers, cold and warm, all encode paths
	g.largeContainerCampaign()
	// the other empty kind at every empty place of transaction-bearing values: the accepted
	// second spelling of a nil recipient must be reached (alone and inside containers) on every
	// run, it is what the one-hash clause is about
	for _, tn := range []string{"Transaction", "Transactions", "Block", "Body", "BlocksData", "MarkedBlockInfo"} {
		e := entryByName(tn)
		for k := 0; k < 4 && len(g.valid[tn]) < 3; k++ {
			g.valueCase(e)
		}
		done := 0
		for _, sb := range g.valid[tn] {
			it, err := parseAll(sb)
			if err != nil || len(sb) > 3000 {
				continue
			}
			var ns []*Item
			nodes(it, &ns)
			for i := 1; i < len(ns) && done < 10; i++ {
				x := ns[i]
				if (x.IsList && len(x.L) == 0) || (!x.IsList && len(x.B) == 0) {
					saved := *x
					*x = Item{IsList: !saved.IsList, B: []byte{}}
					g.bytesCaseVia(e, nil, enc(it), "flip-empty-kind@"+fmt.Sprint(i))
					*x = saved
					done++
				}
			}
		}
	}
	// types whose hand-written coder differs from the pinned inventory get ten times the budget
	boost := changedCoders()
	for _, e := range entries {
		if boost[e.t.Name()] || boost[e.name] {
			e.weight *= 10
			g.res.Count("boosted_type:" + e.name)
		}
	}
	g.sweepCampaign(boost)
	g.bigBytesCampaign()
	handlerCampaign(g, n/4+50)
	g.vrfCampaign()
	g.sizeCampaign(seed, n/5+80, outDir)

	var sb strings.Builder
	sb.WriteString("From Coq Require Import Uint63.\nFrom VF.C14 Require Import Pack.\nFrom VF.gen Require Import C14Schemas.\nLocal Open Scope uint63_scope.\nDefinition cases : list pcase := [\n")
	for i, c := range g.cases {
		if i > 0 {
			sb.WriteString(";\n")
		}
		sb.WriteString(c.coq)
	}
	sb.WriteString("].\nDefinition M := Eval vm_compute in pmismatches all_schemas cases.\nPrint M.\n")
	vf.WriteFile(filepath.Join(outDir, "Cases.v"), sb.String())
	g.res.Cases = len(g.cases)
	g.res.Distinct = len(g.distinct)
	g.res.Rule = "per case one of: (enc) a random value of one of the listed Go types (boundary integers, 0/1/55/56-byte strings, nil and empty slices, nil rlp:\"nil\" pointers, map-backed records) written by rlp.EncodeToBytes and read back; (dec) a byte string offered to rlp.DecodeBytes for that type - a valid encoding mutated structurally (non-canonical headers, length +-1, huge lengths, kind flips, leading zeros, empty string <-> empty list, dropped/duplicated/swapped elements) or at byte level, or random bytes - with the accept/reject verdict, the decoded value and its re-encoding; (item) bytes decoded into interface{}. Distinct by (kind, type, bytes); encodings of 2 bytes or less are not counted as non-trivial."
	g.res.Extra["max_alloc_per_input_byte"] = g.maxRatio
	g.res.Extra["types"] = len(entries)
	for i, c := range g.cases {
		g.res.CaseDescs = append(g.res.CaseDescs, c)
		if i%(len(g.cases)/6+1) == 0 && len(g.res.Samples) < 8 {
			g.res.Samples = append(g.res.Samples, c)
		}
	}
	g.res.Write(filepath.Join(outDir, "result.json"))
}

// ---- replay -----------------------------------------------------------------------------------------

// replay runs in a child under the same address-space limit as the size campaign:
// an input that kills the decoder must not kill the report
func replay(file string) {
	if os.Getenv("C14_CHILD") == "" {
		self, err := os.Executable()
		if err != nil {
			self = os.Args[0]
		}
		cmd := exec.Command("sh", "-c", fmt.Sprintf("ulimit -v %d; exec \"$0\" replay -file \"$1\"", childLimitKiB), self, file)
		cmd.Env = append(os.Environ(), "C14_CHILD=1")
		out, err := cmd.CombinedOutput()
		if len(out) > 6000 {
			out = append(append(append([]byte{}, out[:1500]...), []byte("\n...\n")...), out[len(out)-4000:]...)
		}
		fmt.Print(string(out))
		if err == nil {
			return
		}
		if ee, ok := err.(*exec.ExitError); ok && ee.ExitCode() == 1 {
			os.Exit(1)
		}
		fmt.Println("\nORACLE VIOLATION: the decoder died with a fatal runtime error on this input (child under address-space limit):", err)
		os.Exit(1)
	}
	raw, err := ioutil.ReadFile(file)
	if err != nil {
		fmt.Println(err)
		os.Exit(2)
	}
	var h hit
	if err := json.Unmarshal(raw, &h); err != nil {
		fmt.Println(err)
		os.Exit(2)
	}
	b, _ := hex.DecodeString(h.Bytes)
	g := &genState{r: vf.NewRng(1), res: vf.NewResult("C14", 1), distinct: map[string]bool{}, valid: map[string][][]byte{}}
	switch {
	case h.Type == "interface":
		g.itemCase(b)
	case h.Mode == "vrf-handler":
		res, pan := runVrfHandleMsg(b)
		fmt.Println("result:", res, "panic:", pan)
		g.vrfObs("replay", "corpus", b, res, pan)
	case strings.HasPrefix(h.Type, "handler:"):
		replayHandler(g, h)
	case strings.HasPrefix(h.What, "large-container"):
		e := entryByName(h.Type)
		o := goDecode(e, b, false)
		if e == nil || !o.Accepted {
			fmt.Println("the stored encoding does not decode")
			os.Exit(2)
		}
		g.largeContainerCheck(e, o.obj, 0, false)
	case strings.HasPrefix(h.What, "encoder-reader-path-differs") || strings.HasPrefix(h.What, "encoder-writer-path-differs"):
		e := entryByName(h.Type)
		o := goDecode(e, b, false)
		if e == nil || !o.Accepted {
			fmt.Println("the stored encoding does not decode")
			os.Exit(2)
		}
		mv, _ := projObj(o.obj)
		for c := 0; c < 5; c++ {
			for m := 0; m < len(readerModes); m++ {
				g.readerPath(e, o.obj, b, &mv, c, m)
			}
		}
	case h.Value != nil && strings.HasPrefix(h.What, "encoding-not-deterministic"):
		e := entryByName(h.Type)
		o := goDecode(e, b, false)
		if o.Accepted {
			seen := map[string]bool{}
			for i := 0; i < 64; i++ {
				x, _, _ := goEncode(o.obj)
				seen[string(x)] = true
			}
			fmt.Printf("%d distinct encodings of one object in 64 runs\n", len(seen))
			if len(seen) > 1 {
				g.hit(hit{What: h.What, Type: h.Type, Bytes: h.Bytes})
			}
		}
	default:
		e := entryByName(h.Type)
		if e == nil {
			fmt.Println("unknown type", h.Type)
			os.Exit(2)
		}
		if h.Mode == "stream" {
			g.streamCase(e, b, "replay")
		} else {
			g.bytesCaseVia(e, viaByName(e, h.Via), b, "replay")
		}
		if (h.Expect == "reject" || strings.HasPrefix(h.What, "regression:")) && goDecode(e, b, false).Accepted {
			g.hit(hit{What: "regression:repaired-finding-accepted-again:" + e.name, Type: e.name, Bytes: h.Bytes})
		}
		for _, c := range g.cases {
			fmt.Printf("type=%s accepted=%v reencoded=%s\n", c.Type, c.Acc, c.Re)
		}
	}
	if len(g.res.OracleHits) > 0 {
		x, _ := json.Marshal(g.res.OracleHits[0])
		fmt.Println("ORACLE VIOLATION:", string(x))
		os.Exit(1)
	}
	fmt.Println("no violation on this input")
}

func main() {
	mode := ""
	if len(os.Args) > 1 {
		mode = os.Args[1]
		os.Args = append(os.Args[:1], os.Args[2:]...)
	}
	seed := flag.Uint64("seed", 1, "")
	n := flag.Int("n", 500, "")
	out := flag.String("out", ".", "")
	corpus := flag.String("corpus", "/verif/corpus/C14", "")
	file := flag.String("file", "", "")
	flag.Parse()
	params.InitNetworkId(params.NetworkIdForTestCase)
	logging.Root().SetHandler(logging.DiscardHandler())
	initEntries()
	switch mode {
	case "gen":
		gen(*seed, *n, *out, *corpus)
	case "schemas":
		schemasCmd(*out)
	case "callsites":
		callSitesCmd(*out)
	case "vrfwitness":
		vrfWitnessCmd()
	case "codercalls": // prints the inventory in the format of coder_calls_golden.go
		for _, p := range collectCoderCalls() {
			fmt.Printf("%s\t%s\n", p[0], p[1])
		}
	case "sizeattack":
		sizeAttackChild(*seed, *n, *out)
	case "replay":
		replay(*file)
	default:
		fmt.Println("usage: c14 gen|schemas|replay")
		os.Exit(2)
	}
}
