// C14 harness, part 6: size-field attacks, run in a child process under an
// address-space limit.  A header that declares more than there is must be
// rejected before anything is allocated for it; a decoder that trusts a lying
// header calls make([]byte, size) and either panics (len out of range), dies with
// an unrecoverable out-of-memory, or allocates far beyond the input.  The child
// leaves every input on disk before it is decoded and appends its observations
// line by line, so the parent turns a dead child into an oracle hit that names
// the input instead of losing the run.
package main

import (
	"bufio"
	"encoding/hex"
	"encoding/json"
	"fmt"
	"io/ioutil"
	"os"
	"os/exec"
	"path/filepath"
	"strings"

	"verif/harness/vf"
)

// address-space limit of the child (KiB for ulimit -v): 4 GiB
const childLimitKiB = 4 << 20

type sizeLine struct {
	Cases []struct {
		Coq  string `json:"coq"`
		Desc Case   `json:"desc"`
	} `json:"cases"`
	Hits []hit          `json:"hits"`
	Dist map[string]int `json:"dist"`
}

func claims(r *vf.Rng, remaining int) uint64 {
	rem := uint64(remaining)
	return r.Pick([]uint64{rem + 1, rem + 2, rem + 56, rem + 256, 1<<16 + rem, 1 << 24, 1 << 28, 1 << 31, 1<<31 + 1, 1<<32 - 1, 1 << 32, 1 << 40, 1 << 48, 1 << 62, 1 << 63, ^uint64(0)})
}

func satAdd(a, b uint64) uint64 {
	if a+b < a {
		return ^uint64(0)
	}
	return a + b
}

// sizeLie makes one header of the tree declare a size that is not there and, in
// the consistent modes, makes the headers above it go along with the lie.
func sizeLie(r *vf.Rng, root *Item, total int) string {
	type pn struct {
		x    *Item
		path []*Item // ancestors, root first
	}
	var all []pn
	var walk func(x *Item, path []*Item)
	walk = func(x *Item, path []*Item) {
		all = append(all, pn{x, append([]*Item{}, path...)})
		for _, y := range x.L {
			walk(y, append(path, x))
		}
	}
	walk(root, nil)
	var t pn
	switch k := r.Intn(10); {
	case k < 3 || len(all) == 1:
		t = all[0] // the outer header itself
	default:
		t = all[1+r.Intn(len(all)-1)]
		if k < 8 { // prefer strings: Stream.Bytes allocates what the header says
			for try := 0; try < 8 && t.x.IsList; try++ {
				t = all[1+r.Intn(len(all)-1)]
			}
		}
	}
	s := claims(r, total)
	t.x.Claim = &s
	mode := "target-only"
	switch r.Intn(4) {
	case 0:
	case 1, 2: // every header above declares enough room for the lie
		mode = "consistent-to-root"
		for _, a := range t.path {
			c := satAdd(satAdd(uint64(payloadLenHonest(a)), s), 16)
			a.Claim = &c
		}
	default: // only the outer header goes along
		if len(t.path) > 0 {
			mode = "outer-and-target"
			c := satAdd(satAdd(uint64(payloadLenHonest(t.path[0])), s), 16)
			t.path[0].Claim = &c
		}
	}
	kind := "string"
	if t.x.IsList {
		kind = "list"
	}
	return fmt.Sprintf("size-lie:%s:depth%d:%s:2^%d", kind, len(t.path), mode, bitLen(s))
}

func bitLen(x uint64) int {
	n := 0
	for x > 0 {
		n++
		x >>= 1
	}
	return n
}

func payloadLenHonest(x *Item) int {
	c := *x
	c.Claim, c.Mode = nil, mCanon
	if !c.IsList {
		return len(c.B)
	}
	n := 0
	for _, y := range c.L {
		yc := *y
		yc.Claim = nil
		n += len(enc(&yc))
	}
	return n
}

// types whose DecodeRLP peeks Kind() before decoding (see callsites.go: peekers),
// their containers, and a sample of everything else
var sizeTargets = []string{"Transaction", "Transaction", "Block", "Block", "Transactions", "Body", "BlocksData", "MarkedBlockInfo",
	"Header", "Receipt", "Validator", "UconMessage", "BlockHashWithVotes", "UconValidators", "Evidences", "SlashData", "StakingMessage", "TxCreateValidator"}

func sizeAttackChild(seed uint64, n int, outDir string) {
	g := &genState{r: vf.NewRng(seed), res: vf.NewResult("C14", seed), distinct: map[string]bool{}, valid: map[string][][]byte{}}
	r := g.r
	lastInputFile = filepath.Join(outDir, "last_input.json")
	f, err := os.Create(filepath.Join(outDir, "size.jsonl"))
	if err != nil {
		fmt.Println(err)
		os.Exit(2)
	}
	w := bufio.NewWriter(f)
	nc, nh := 0, 0
	flush := func() {
		var l sizeLine
		for _, c := range g.cases[nc:] {
			l.Cases = append(l.Cases, struct {
				Coq  string `json:"coq"`
				Desc Case   `json:"desc"`
			}{c.coq, c})
		}
		for _, h := range g.res.OracleHits[nh:] {
			l.Hits = append(l.Hits, h.(hit))
		}
		nc, nh = len(g.cases), len(g.res.OracleHits)
		l.Dist = g.res.Distribution
		b, _ := json.Marshal(l)
		w.Write(b)
		w.WriteByte('\n')
		w.Flush()
	}
	for _, tn := range sizeTargets { // seeds
		e := entryByName(tn)
		for k := 0; k < 2 && len(g.valid[tn]) < 2; k++ {
			g.valueCase(e)
		}
	}
	nc, nh = len(g.cases), len(g.res.OracleHits) // the seed values are not reported again
	for i := 0; i < n; i++ {
		var tn string
		if r.Chance(70) {
			tn = sizeTargets[r.Intn(len(sizeTargets))]
		} else {
			tn = pickEntry(r).name
		}
		e := entryByName(tn)
		if len(g.valid[tn]) == 0 {
			g.valueCase(e)
			nc, nh = len(g.cases), len(g.res.OracleHits)
			if len(g.valid[tn]) == 0 {
				continue
			}
		}
		seedb := g.valid[tn][r.Intn(len(g.valid[tn]))]
		it, err := parseAll(seedb)
		if err != nil || len(seedb) > 3000 {
			continue
		}
		m := sizeLie(r, it, len(seedb))
		b := enc(it)
		g.res.Count("size_lie:" + strings.SplitN(m, ":", 5)[3])
		switch k := r.Intn(10); {
		case k < 5:
			g.bytesCaseVia(e, nil, b, m)
		case k < 8:
			g.streamCase(e, b, m)
		case tn == "Block" || tn == "ConsensusCommon" || tn == "BlockHashWithVotes":
			handlerSetup()
			code := map[string]uint8{"ConsensusCommon": 1, "Block": 2, "BlockHashWithVotes": 3}[tn]
			data := signedMsg(code, b)
			a0 := allocated()
			res, pan := runHandleMsg(data)
			if d := allocated() - a0; d > allocBound(len(data))+1<<20 {
				g.hit(hit{What: "allocation-far-beyond-input:handler:HandleMsg", Type: "handler:HandleMsg", Bytes: hex.EncodeToString(data), Note: fmt.Sprintf("%d bytes allocated for %d bytes of input", d, len(data))})
			}
			g.handlerObs("HandleMsg", data, 0, res, pan)
		default:
			if v := e.pickVia(r); v != nil {
				g.bytesCaseVia(e, v, b, m)
			} else {
				g.bytesCaseVia(e, nil, b, m)
			}
		}
		flush()
	}
	flush()
	f.Close()
}

// sizeCampaign runs the child and merges what it observed; a child that died is a hit.
func (g *genState) sizeCampaign(seed uint64, n int, outDir string) {
	dir := filepath.Join(outDir, "size")
	os.MkdirAll(dir, 0755)
	self, err := os.Executable()
	if err != nil {
		self = os.Args[0]
	}
	cmd := exec.Command("sh", "-c", fmt.Sprintf("ulimit -v %d; exec \"$0\" sizeattack -seed %d -n %d -out \"$1\"", childLimitKiB, seed+977, n), self, dir)
	out, runErr := cmd.CombinedOutput()
	if f, err := os.Open(filepath.Join(dir, "size.jsonl")); err == nil {
		sc := bufio.NewScanner(f)
		sc.Buffer(make([]byte, 1<<20), 1<<28)
		var last map[string]int
		for sc.Scan() {
			var l sizeLine
			if json.Unmarshal(sc.Bytes(), &l) != nil {
				continue
			}
			for _, c := range l.Cases {
				d := c.Desc
				d.coq = c.Coq
				if e := entryByName(d.Type); e != nil {
					d.ty = e.id
				}
				g.add(d)
			}
			for _, h := range l.Hits {
				g.hit(h)
			}
			last = l.Dist
		}
		f.Close()
		for k, v := range last {
			g.res.Distribution[k] += v
		}
	}
	g.res.Extra["size_attack_child_limit_bytes"] = childLimitKiB * 1024
	if runErr != nil {
		// the child died (fatal runtime error such as out of memory, or the limit): the
		// input it was decoding is on disk
		h := hit{What: "fatal-runtime-error:decode", Type: "unknown"}
		if b, err := ioutil.ReadFile(filepath.Join(dir, "last_input.json")); err == nil {
			json.Unmarshal(b, &h)
		}
		h.What = "fatal-runtime-error:decode:" + h.Type
		tail := string(out)
		if len(tail) > 600 {
			tail = tail[:600]
		}
		h.Note = fmt.Sprintf("child under %d KiB address-space limit died: %v; %s", childLimitKiB, runErr, tail)
		g.res.Count("size_attack_child_died")
		g.hit(h)
		return
	}
	g.res.Count("size_attack_child_completed")
}
