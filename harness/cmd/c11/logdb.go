package main

// logDB wraps the memory database handed to core.NewBlockChain.  Every write
// that reaches the "disk" (a direct Put/Delete or an atomic batch Write) is
// classified, logged, and - when snapshots are on - followed by a frozen copy
// of the whole key space, which is the database a process killed right after
// that write would find at its next start.

import (
	"bytes"
	"encoding/binary"
	"sync"

	"github.com/youchainhq/go-youchain/common"
	"github.com/youchainhq/go-youchain/youdb"
)

// kinds of elementary writes
const (
	kBody   = "body"
	kHNum   = "hnum"
	kHdr    = "hdr"
	kRcpt   = "rcpt"
	kLook   = "look"
	kUnlook = "unlook"
	kHeadH  = "headH"
	kCanon  = "canon"
	kUncan  = "uncanon"
	kHeadB  = "headB"
	kNode   = "node"  // trie node (32-byte key)
	kPre    = "pre"   // preimage
	kOther  = "other" // anything else (indexers, network id ...)
	kDel    = "del"   // deletion of a header/body/receipt (never expected during import)
)

type elem struct {
	Kind string
	Hash common.Hash // block hash / tx hash / node hash
	Num  uint64
	Val  []byte
}

// one disk write = one crash point
type write struct {
	Batch bool
	Elems []elem
}

func classify(key, val []byte, del bool) elem {
	k := string(key)
	switch {
	case k == "LastHeader":
		return elem{Kind: kHeadH, Hash: common.BytesToHash(val)}
	case k == "LastBlock":
		return elem{Kind: kHeadB, Hash: common.BytesToHash(val)}
	case len(key) == 32:
		return elem{Kind: kNode, Hash: common.BytesToHash(key)}
	case bytes.HasPrefix(key, []byte("secure-key-")):
		return elem{Kind: kPre}
	case len(key) == 41 && key[0] == 'h':
		if del {
			return elem{Kind: kDel}
		}
		return elem{Kind: kHdr, Num: binary.BigEndian.Uint64(key[1:9]), Hash: common.BytesToHash(key[9:])}
	case len(key) == 10 && key[0] == 'h' && key[9] == 'n':
		if del {
			return elem{Kind: kUncan, Num: binary.BigEndian.Uint64(key[1:9])}
		}
		return elem{Kind: kCanon, Num: binary.BigEndian.Uint64(key[1:9]), Hash: common.BytesToHash(val)}
	case len(key) == 33 && key[0] == 'H':
		if del {
			return elem{Kind: kDel}
		}
		return elem{Kind: kHNum, Hash: common.BytesToHash(key[1:])}
	case len(key) == 41 && key[0] == 'b':
		if del {
			return elem{Kind: kDel}
		}
		return elem{Kind: kBody, Num: binary.BigEndian.Uint64(key[1:9]), Hash: common.BytesToHash(key[9:])}
	case len(key) == 41 && key[0] == 'r':
		if del {
			return elem{Kind: kDel}
		}
		return elem{Kind: kRcpt, Num: binary.BigEndian.Uint64(key[1:9]), Hash: common.BytesToHash(key[9:])}
	case len(key) == 33 && key[0] == 'l':
		if del {
			return elem{Kind: kUnlook, Hash: common.BytesToHash(key[1:])}
		}
		return elem{Kind: kLook, Hash: common.BytesToHash(key[1:]), Val: common.CopyBytes(val)}
	}
	return elem{Kind: kOther, Val: common.CopyBytes(key)}
}

type logDB struct {
	mu    sync.Mutex
	inner *youdb.MemDatabase
	on    bool // log writes
	snap  bool // keep a frozen copy after every relevant logged write (nil for the others)
	log   []write
	snaps []map[string][]byte
	// relevant: does the write touch anything the model knows about (set by the world)
	relevant func(write) bool
	// amp multiplies what batches report as ValueSize(): with a large factor every
	// "flush when the batch reaches IdealBatchSize" site in the code under test fires
	// after the first entry, so size thresholds cannot hide a non-atomic sequence
	amp int
}

func newLogDB() *logDB { return &logDB{inner: youdb.NewMemDatabase()} }

func (d *logDB) dump() map[string][]byte {
	m := make(map[string][]byte)
	for _, k := range d.inner.Keys() {
		v, _ := d.inner.Get(k)
		m[string(k)] = v
	}
	return m
}

func restore(m map[string][]byte) *logDB {
	d := newLogDB()
	for k, v := range m {
		d.inner.Put([]byte(k), v)
	}
	return d
}

func (d *logDB) record(w write) {
	if !d.on {
		return
	}
	d.log = append(d.log, w)
	if d.snap {
		if d.relevant == nil || d.relevant(w) {
			d.snaps = append(d.snaps, d.dump())
		} else {
			d.snaps = append(d.snaps, nil)
		}
	}
}

func (d *logDB) Put(key, value []byte) error {
	d.mu.Lock()
	defer d.mu.Unlock()
	err := d.inner.Put(key, value)
	d.record(write{Elems: []elem{classify(key, value, false)}})
	return err
}
func (d *logDB) Delete(key []byte) error {
	d.mu.Lock()
	defer d.mu.Unlock()
	err := d.inner.Delete(key)
	d.record(write{Elems: []elem{classify(key, nil, true)}})
	return err
}
func (d *logDB) Get(key []byte) ([]byte, error) { return d.inner.Get(key) }
func (d *logDB) Has(key []byte) (bool, error)   { return d.inner.Has(key) }
func (d *logDB) Close()                         {}
func (d *logDB) NewBatch() youdb.Batch          { return &logBatch{d: d, b: d.inner.NewBatch()} }

type logBatch struct {
	d     *logDB
	b     youdb.Batch
	elems []elem
}

func (b *logBatch) Put(key, value []byte) error {
	b.elems = append(b.elems, classify(key, value, false))
	return b.b.Put(key, value)
}
func (b *logBatch) Delete(key []byte) error {
	b.elems = append(b.elems, classify(key, nil, true))
	return b.b.Delete(key)
}
func (b *logBatch) ValueSize() int {
	if b.d.amp > 1 {
		return b.b.ValueSize() * b.d.amp
	}
	return b.b.ValueSize()
}
func (b *logBatch) Write() error {
	b.d.mu.Lock()
	defer b.d.mu.Unlock()
	err := b.b.Write()
	b.d.record(write{Batch: true, Elems: append([]elem{}, b.elems...)})
	return err
}
func (b *logBatch) Reset() { b.elems = nil; b.b.Reset() }
