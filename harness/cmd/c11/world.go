package main

// Block trees made by the real chain maker (core.GenerateChain) over a
// generator-side database, plus the invalid variants the property talks about.

import (
	"fmt"
	"math/big"

	"github.com/youchainhq/go-youchain/common"
	"github.com/youchainhq/go-youchain/consensus/solo"
	"github.com/youchainhq/go-youchain/core"
	"github.com/youchainhq/go-youchain/core/types"
	"github.com/youchainhq/go-youchain/crypto"
	"github.com/youchainhq/go-youchain/params"
	"github.com/youchainhq/go-youchain/youdb"
)

// body/state validity classes of a generated block
const (
	bvGood       = 0
	bvTxRoot     = 1 // body does not match header.TxHash            -> ValidateBody fails
	bvRootKnown  = 2 // header.Root replaced by the parent's root    -> ValidateState fails; the claimed root is a state that exists
	bvRootAbsent = 3 // header.Root replaced by a root nobody has    -> ValidateState fails
	bvGasUsed    = 4 // header.GasUsed off by one                    -> ValidateState fails
	bvTxHashOnly = 5 // header.TxHash replaced, body and every other root consistent -> only ValidateBody's tx-root test fails
	bvRcptRoot   = 6 // header.ReceiptHash replaced                  -> ValidateState fails
	bvBloom      = 7 // header.Bloom with one bit flipped            -> ValidateState fails
)

// BlockSpec describes one block of a tree; Parent is an index into the tree
// (-1 = genesis).  Parents precede children.
type BlockSpec struct {
	Parent int   `json:"p"`
	Txs    []int `json:"tx,omitempty"` // one transfer per entry, value = entry; the nonce comes from the parent state
	Salt   int   `json:"s"`            // goes into header.Extra: distinguishes siblings with the same content
	HV     int   `json:"hv,omitempty"` // header verdict class (engine.go)
	BV     int   `json:"bv,omitempty"` // body/state validity class
}

var (
	bankKey, _ = crypto.HexToECDSA("b71c71a67e1177ad4e901695e1b4b9ee17ae16c6668d313eac2f96dbcda3f291")
	bankAddr   = crypto.PubkeyToAddress(bankKey.PublicKey)
	sinkAddr   = common.HexToAddress("0x00000000000000000000000000000000000c1100")
)

func gspec() *core.Genesis {
	return &core.Genesis{
		NetworkId:   params.NetworkIdForTestCase,
		CurrVersion: params.YouCurrentVersion,
		Alloc:       core.GenesisAlloc{bankAddr: {Balance: big.NewInt(1000000000000)}},
	}
}

type world struct {
	specs   []BlockSpec
	gendb   *youdb.MemDatabase
	genesis *types.Block
	blocks  []*types.Block // by tree index; invalid variants included
	good    []*types.Block // the well-formed block the variant was derived from (== blocks[i] for valid ones)
	flags   map[common.Hash]int
	proc    core.Processor

	blockID              map[common.Hash]uint64 // genesis = 1, tree index i -> i+2, further blocks follow
	byID                 map[uint64]*types.Block
	rootID               map[common.Hash]uint64
	txID                 map[common.Hash]uint64
	valRoot, stakingRoot common.Hash
	deleted              int             // header/body/receipt deletions seen in the current import
	executed             map[uint64]bool // blocks a head switch was made for (imported as head)
	solo                 bool            // the chain under test runs with consensus/solo instead of the labelled engine
}

func (w *world) rid(r common.Hash) uint64 {
	if id, ok := w.rootID[r]; ok {
		return id
	}
	id := uint64(len(w.rootID) + 1)
	w.rootID[r] = id
	return id
}
func (w *world) tid(h common.Hash) uint64 {
	if id, ok := w.txID[h]; ok {
		return id
	}
	id := uint64(len(w.txID) + 1)
	w.txID[h] = id
	return id
}

func (w *world) register(b *types.Block) uint64 {
	if id, ok := w.blockID[b.Hash()]; ok {
		return id
	}
	id := uint64(len(w.blockID) + 1)
	w.blockID[b.Hash()] = id
	w.byID[id] = b
	w.rid(b.Root())
	for _, tx := range b.Transactions() {
		w.tid(tx.Hash())
	}
	if b.ValRoot() != w.valRoot || b.StakingRoot() != w.stakingRoot {
		panic("c11: validator/staking root changed - the abstraction 'state = one root' no longer holds for generated chains")
	}
	return id
}

// child makes one well-formed block on top of parent (whose state is in gendb).
func (w *world) child(parent *types.Block, txs []int, salt int) *types.Block {
	signer := types.MakeSigner(big.NewInt(0))
	blocks, _ := core.GenerateChain(parent, solo.NewSolo(), w.gendb, 1, w.proc, func(i int, g *core.BlockGen) {
		g.SetExtra([]byte{byte(salt)})
		for _, v := range txs {
			tx, err := types.SignTx(types.NewTransaction(g.TxNonce(bankAddr), sinkAddr, big.NewInt(int64(v)), params.TxGas, nil, nil), signer, bankKey)
			if err != nil {
				panic(err)
			}
			g.AddTx(tx)
		}
	})
	return blocks[0]
}

func newWorld(specs []BlockSpec) *world {
	w := &world{specs: specs, gendb: youdb.NewMemDatabase(), flags: map[common.Hash]int{},
		blockID: map[common.Hash]uint64{}, byID: map[uint64]*types.Block{}, executed: map[uint64]bool{1: true}, rootID: map[common.Hash]uint64{}, txID: map[common.Hash]uint64{}}
	w.genesis = gspec().MustCommit(w.gendb)
	w.valRoot, w.stakingRoot = w.genesis.ValRoot(), w.genesis.StakingRoot()
	w.proc = core.NewStateProcessor(nil, solo.NewSolo())
	w.register(w.genesis)
	for i, s := range specs {
		if s.Parent >= i {
			panic(fmt.Sprintf("c11: bad tree, parent %d of %d", s.Parent, i))
		}
		parent := w.genesis
		if s.Parent >= 0 {
			// children of an invalid block are built on the well-formed twin's state
			// but must name the invalid block as parent: rebuild on a header copy
			parent = w.good[s.Parent]
		}
		g := w.child(parent, s.Txs, s.Salt)
		if s.Parent >= 0 && w.blocks[s.Parent].Hash() != parent.Hash() {
			h := g.Header()
			h.ParentHash = w.blocks[s.Parent].Hash()
			g = types.NewBlockWithHeader(h).WithBody(g.Body())
		}
		b := g
		h := g.Header()
		switch s.BV {
		case bvTxRoot:
			if len(g.Transactions()) > 0 {
				b = g.WithBody(&types.Body{Transactions: g.Transactions()[1:]})
			} else {
				tx, _ := types.SignTx(types.NewTransaction(77, sinkAddr, big.NewInt(1), params.TxGas, nil, nil), types.MakeSigner(big.NewInt(0)), bankKey)
				b = g.WithBody(&types.Body{Transactions: types.Transactions{tx}})
			}
		case bvRootKnown:
			h.Root = parent.Root()
			if len(s.Txs) == 0 {
				h.Root = common.BytesToHash([]byte{0xc1, 0x10, byte(i)})
			}
			b = types.NewBlockWithHeader(h).WithBody(g.Body())
		case bvRootAbsent:
			h.Root = common.BytesToHash([]byte{0xc1, 0x11, byte(i)})
			b = types.NewBlockWithHeader(h).WithBody(g.Body())
		case bvGasUsed:
			h.GasUsed++
			b = types.NewBlockWithHeader(h).WithBody(g.Body())
		case bvTxHashOnly:
			h.TxHash = common.BytesToHash([]byte{0xc1, 0x15, byte(i)})
			b = types.NewBlockWithHeader(h).WithBody(g.Body())
		case bvRcptRoot:
			h.ReceiptHash = common.BytesToHash([]byte{0xc1, 0x16, byte(i)})
			b = types.NewBlockWithHeader(h).WithBody(g.Body())
		case bvBloom:
			h.Bloom[0] ^= 1
			b = types.NewBlockWithHeader(h).WithBody(g.Body())
		}
		w.blocks = append(w.blocks, b)
		w.good = append(w.good, g)
		w.flags[b.Hash()] = s.HV
		w.register(b)
	}
	return w
}

// valid: the block and all its ancestors are well-formed and carry a good header
func (w *world) valid(i int) bool {
	for i >= 0 {
		if w.specs[i].HV == hvBadSig || w.specs[i].HV == hvBadCons || w.specs[i].BV != bvGood {
			return false
		}
		i = w.specs[i].Parent
	}
	return true
}
