// C11 harness: drives the real core.BlockChain (InsertChain, insertSidechain,
// WriteBlockWithState, reorg, loadLastState/repair) over a logging wrapper of
// youdb.MemDatabase, with block trees from the real chain maker and a labelled
// test engine.  For every offered batch it records the error class, the
// classified sequence of database writes and the abstract database; for every
// write of the import it restarts a node on the database frozen right after
// that write, offers the interrupted batch again plus one further valid block,
// and compares with a node that never crashed.  Everything is written to
// Cases.v for the Coq model; the property oracle below judges the
// implementation's own observations.
package main

import (
	"encoding/json"
	"flag"
	"fmt"
	"github.com/youchainhq/go-youchain/consensus/solo"
	"io/ioutil"
	"os"
	"path/filepath"
	"runtime"
	"sort"
	"strings"
	"time"

	"github.com/youchainhq/go-youchain/common"
	"github.com/youchainhq/go-youchain/consensus"
	"github.com/youchainhq/go-youchain/core"
	"github.com/youchainhq/go-youchain/core/rawdb"
	"github.com/youchainhq/go-youchain/core/types"
	"github.com/youchainhq/go-youchain/event"
	"github.com/youchainhq/go-youchain/local"
	"github.com/youchainhq/go-youchain/logging"
	"github.com/youchainhq/go-youchain/params"
	"github.com/youchainhq/go-youchain/rlp"
	"verif/harness/vf"
)

// ---- cases -----------------------------------------------------------------

// Case is the replayable input: a labelled block tree and the batches (lists of
// tree indexes) offered to InsertChain, in order.
type Case struct {
	Tree    []BlockSpec `json:"tree"`
	Batches [][]int     `json:"batches"`
	Crash   []bool      `json:"crash,omitempty"` // enumerate the crash points of this batch (default: all)
	Amp     int         `json:"amp,omitempty"`   // batches report ValueSize() multiplied by this (size thresholds fire early)
	Big     bool        `json:"big,omitempty"`   // real-size case: oracle only (not sent to the Coq model), further block only where crash points are enumerated
	Solo    bool        `json:"solo,omitempty"`  // the chain runs with the real consensus/solo engine (no header checks at all): oracle only
	Comment string      `json:"comment,omitempty"`
}

// error classes (err_code in Model.v)
const (
	eNone = iota
	eKnown
	eFuture
	eUnknownAnc
	ePruned
	eExist
	eBadHeader
	eBadBody
	eBadState
	eStateMissing
	eMissingParent
	eReorg
	eNonContig
	eDoor
	ePanic
	eFuel
	eOther = 99
)

var errNames = map[int]string{eNone: "ok", eKnown: "known", eFuture: "future", eUnknownAnc: "unknown-ancestor", ePruned: "pruned", eExist: "exist-canonical",
	eBadHeader: "bad-header", eBadBody: "bad-body", eBadState: "bad-state", eStateMissing: "state-missing", eMissingParent: "missing-parent", eReorg: "reorg-failed",
	eNonContig: "non-contiguous", eDoor: "version-state-door", ePanic: "panic", eFuel: "fuel", eOther: "other"}

func classifyErr(err error) int {
	if err == nil {
		return eNone
	}
	switch err {
	case core.ErrKnownBlock:
		return eKnown
	case consensus.ErrUnknownAncestor:
		return eUnknownAnc
	case consensus.ErrPrunedAncestor:
		return ePruned
	case consensus.ErrExistCanonical:
		return eExist
	case consensus.ErrFutureBlock:
		return eFuture
	case errBadSig, errBadCons:
		return eBadHeader
	}
	m := err.Error()
	switch {
	case strings.HasPrefix(m, "VerifyYouVersionState failed"):
		return eDoor
	case strings.HasPrefix(m, "non contiguous insert"):
		return eNonContig
	case strings.HasPrefix(m, "transaction root hash mismatch"):
		return eBadBody
	case strings.HasPrefix(m, "invalid merkle root"), strings.HasPrefix(m, "invalid gas used"), strings.HasPrefix(m, "invalid bloom"),
		strings.HasPrefix(m, "invalid receipt root"), strings.HasPrefix(m, "invalid validator root"), strings.HasPrefix(m, "invalid staking root"),
		strings.HasPrefix(m, "nonce too"), strings.HasPrefix(m, "invalid gas rewards"), strings.Contains(m, "insufficient"), strings.Contains(m, "gas limit reached"):
		return eBadState
	case strings.Contains(m, "missing trie node"):
		return eStateMissing
	case m == "missing parent":
		return eMissingParent
	case strings.HasPrefix(m, "Invalid old chain"), strings.HasPrefix(m, "Invalid new chain"):
		return eReorg
	case strings.HasPrefix(m, "future block"):
		return eFuture
	}
	return eOther
}

// ---- abstraction of the database ---------------------------------------------

type pair [2]uint64

type Obs struct {
	Head, HeadB, HeadH           uint64
	Canon                        []pair
	State, Hdr, Body, HNum, Rcpt []uint64
	Look                         []pair
}

func sortU(x []uint64) []uint64 { sort.Slice(x, func(i, j int) bool { return x[i] < x[j] }); return x }
func sortP(x []pair) []pair {
	sort.Slice(x, func(i, j int) bool { return x[i][0] < x[j][0] || (x[i][0] == x[j][0] && x[i][1] < x[j][1]) })
	return x
}

func (w *world) bid(h common.Hash) uint64 {
	id, ok := w.blockID[h]
	if !ok {
		panic(fmt.Sprintf("c11: block hash %x in the database is not a block of the tree", h[:4]))
	}
	return id
}

func lookTarget(val []byte) common.Hash {
	var e rawdb.TxLookupEntry
	if err := rlp.DecodeBytes(val, &e); err != nil {
		panic(err)
	}
	return e.BlockHash
}

func (w *world) abstractDB(m map[string][]byte, head common.Hash) Obs {
	o := Obs{Head: w.blockID[head]}
	for k, v := range m {
		e := classify([]byte(k), v, false)
		switch e.Kind {
		case kHeadH:
			o.HeadH = w.bid(e.Hash)
		case kHeadB:
			o.HeadB = w.bid(e.Hash)
		case kCanon:
			o.Canon = append(o.Canon, pair{e.Num, w.bid(e.Hash)})
		case kHdr:
			o.Hdr = append(o.Hdr, w.bid(e.Hash))
		case kBody:
			o.Body = append(o.Body, w.bid(e.Hash))
		case kHNum:
			o.HNum = append(o.HNum, w.bid(e.Hash))
		case kRcpt:
			o.Rcpt = append(o.Rcpt, w.bid(e.Hash))
		case kLook:
			tid, ok := w.txID[e.Hash]
			if !ok {
				panic("c11: lookup entry of an unknown transaction")
			}
			o.Look = append(o.Look, pair{tid, w.bid(lookTarget(v))})
		case kNode:
			if id, ok := w.rootID[e.Hash]; ok {
				o.State = append(o.State, id)
			}
		}
	}
	sortP(o.Canon)
	sortP(o.Look)
	sortU(o.State)
	sortU(o.Hdr)
	sortU(o.Body)
	sortU(o.HNum)
	sortU(o.Rcpt)
	return o
}

// an abstract write: list of elementary writes in Coq syntax; nil = irrelevant
func (w *world) abstractWrite(wr write) ([]string, bool) {
	var out []string
	sw := false // touches the head switch (receipts, lookups, markers, canonical index)
	for _, e := range wr.Elems {
		switch e.Kind {
		case kBody:
			out = append(out, fmt.Sprintf("WBody %d", w.bid(e.Hash)))
		case kHNum:
			out = append(out, fmt.Sprintf("WHNum %d", w.bid(e.Hash)))
		case kHdr:
			out = append(out, fmt.Sprintf("WHdr %d", w.bid(e.Hash)))
		case kNode:
			if id, ok := w.rootID[e.Hash]; ok {
				out = append(out, fmt.Sprintf("WState %d", id))
			}
		case kRcpt:
			// receipts alone are not a head switch (a re-executed canonical block only gets
			// its state and receipts written)
			out = append(out, fmt.Sprintf("WRcpt %d", w.bid(e.Hash)))
		case kLook:
			out = append(out, fmt.Sprintf("WLook %d %d", w.txID[e.Hash], w.bid(lookTarget(e.Val))))
			sw = true
		case kUnlook:
			out = append(out, fmt.Sprintf("WUnlook %d", w.txID[e.Hash]))
			sw = true
		case kHeadH:
			out = append(out, fmt.Sprintf("WHeadH %d", w.bid(e.Hash)))
			sw = true
		case kCanon:
			out = append(out, fmt.Sprintf("WCanon %d %d", e.Num, w.bid(e.Hash)))
			sw = true
		case kHeadB:
			out = append(out, fmt.Sprintf("WHeadB %d", w.bid(e.Hash)))
			sw = true
		case kUncan:
			// never done by the import paths of the code as it is: a comparable write for
			// the model (which never issues it) and a head-switch element for the oracle
			out = append(out, fmt.Sprintf("WUncanon %d", e.Num))
			sw = true
		case kDel:
			w.deleted++ // reported as an oracle hit by run()
		}
	}
	return out, sw
}

func obsDiff(a, b Obs) string {
	var out []string
	js := func(x interface{}) string { v, _ := json.Marshal(x); return string(v) }
	if a.Head != b.Head {
		out = append(out, "head")
	}
	if a.HeadB != b.HeadB {
		out = append(out, "headB")
	}
	if a.HeadH != b.HeadH {
		out = append(out, "headH")
	}
	if js(a.Canon) != js(b.Canon) {
		out = append(out, "canon")
	}
	if js(a.State) != js(b.State) {
		out = append(out, "state")
	}
	if js(a.Hdr) != js(b.Hdr) || js(a.Body) != js(b.Body) || js(a.HNum) != js(b.HNum) {
		out = append(out, "blocks")
	}
	if js(a.Rcpt) != js(b.Rcpt) {
		out = append(out, "rcpt")
	}
	if js(a.Look) != js(b.Look) {
		out = append(out, "look")
	}
	return strings.Join(out, "+")
}

// ---- the property oracle (independent of the Coq model) ---------------------------

// consistency of a (re)started or running node, judged on the real database and
// the real BlockChain object; returns the list of violated clauses
func (w *world) judge(bc *core.BlockChain, db *logDB) []string {
	var bad []string
	head := bc.CurrentBlock()
	// 1. the number->hash index from genesis to head is a parent-linked chain ending in head
	if rawdb.ReadCanonicalHash(db, head.NumberU64()) != head.Hash() {
		bad = append(bad, "head-not-canonical")
	} else {
		h := head.Hash()
		for n := head.NumberU64(); ; n-- {
			b := rawdb.ReadBlock(db, h, n)
			if b == nil || rawdb.ReadCanonicalHash(db, n) != h {
				bad = append(bad, "chain-not-linked")
				break
			}
			if n == 0 {
				if h != w.genesis.Hash() {
					bad = append(bad, "chain-not-linked")
				}
				break
			}
			h = b.ParentHash()
		}
	}
	// 2. the head's state is available
	if _, err := bc.StateAt(head.Root(), head.ValRoot(), head.StakingRoot()); err != nil {
		bad = append(bad, "head-state-missing")
	}
	// 3. transaction lookups point into canonical blocks (at or below the head) that contain the transaction
	for txh := range w.txID {
		bh, bn, idx := rawdb.ReadTxLookupEntry(db, txh)
		if bh == (common.Hash{}) {
			continue
		}
		blk := rawdb.ReadBlock(db, bh, bn)
		if blk == nil || rawdb.ReadCanonicalHash(db, bn) != bh || bn > head.NumberU64() ||
			int(idx) >= len(blk.Transactions()) || blk.Transactions()[idx].Hash() != txh {
			bad = append(bad, "lookup-into-noncanonical")
			break
		}
	}
	// 4. no invalid block in the canonical index (anywhere); and, independently of the
	// generator's labels, every canonical block's body hashes to its header's tx root
	for n := uint64(0); n <= uint64(len(w.blocks))+1; n++ {
		h := rawdb.ReadCanonicalHash(db, n)
		if h == (common.Hash{}) {
			continue
		}
		if rawdb.ReadHeader(db, h, n) == nil || rawdb.ReadBody(db, h, n) == nil {
			bad = append(bad, "canonical entry without a stored header and body")
			break
		}
		id := w.blockID[h]
		how := "made canonical by reorg without being executed"
		if w.executed[id] {
			how = "imported as head"
		}
		if blk := rawdb.ReadBlock(db, h, n); blk != nil && types.DeriveSha(blk.Transactions()) != blk.Header().TxHash {
			bad = append(bad, "canonical block's body does not hash to its header's transaction root ("+how+")")
			break
		}
		if id >= 2 && int(id-2) < len(w.specs) && !w.valid(int(id-2)) {
			// the lowest invalid block of the ancestry
			kind := ""
			for i := int(id - 2); i >= 0; i = w.specs[i].Parent {
				switch {
				case w.specs[i].HV == hvBadSig:
					kind = "bad-signature"
				case w.specs[i].HV == hvBadCons:
					kind = "bad-consensus-field"
				case w.specs[i].BV == bvTxHashOnly:
					kind = "tx-root-only-invalid"
				case w.specs[i].BV == bvTxRoot:
					kind = "body-mismatch"
				case w.specs[i].BV != bvGood:
					kind = "state/receipt/bloom/gas-invalid"
				}
			}
			bad = append(bad, "invalid-block-canonical: "+kind+" block "+how)
			break
		}
	}
	return bad
}

// isAncestor: block a is a strict ancestor of block b
func (w *world) isAncestor(a, b uint64) bool {
	for x := w.byID[b]; x != nil && x.NumberU64() > 0; {
		pid := w.blockID[x.ParentHash()]
		if pid == a {
			return true
		}
		x = w.byID[pid]
	}
	return false
}

// ---- running ---------------------------------------------------------------------

type crashRes struct {
	Ok    bool
	Head  uint64
	Cons  bool
	Mid   bool
	RErr  int
	RHead uint64
	FHead uint64
	Bad   []string
}

type stepRes struct {
	Batch   []uint64
	Err     int
	Log     [][]string
	Obs     Obs
	Cons    bool
	Bad     []string
	Further uint64
	FHead   uint64
	Crash   []crashRes
	Panic   string
}

type hitT struct {
	What  string `json:"what"`
	Case  Case   `json:"case"`
	Step  int    `json:"step"`
	Crash int    `json:"crash_after_write,omitempty"`
	Note  string `json:"note,omitempty"`
}

func newChainOn(w *world, db *logDB) (bc *core.BlockChain, err error) {
	defer func() {
		if r := recover(); r != nil {
			err = fmt.Errorf("panic in NewBlockChain: %v", r)
		}
	}()
	if w.solo {
		return core.NewBlockChain(db, solo.NewSolo(), new(event.TypeMux), params.ArchiveNode, local.FakeDetailDB())
	}
	return core.NewBlockChain(db, newEngine(w.flags), new(event.TypeMux), params.ArchiveNode, local.FakeDetailDB())
}

func insert(bc *core.BlockChain, bl types.Blocks) (code int, pmsg string) {
	defer func() {
		if r := recover(); r != nil {
			code, pmsg = ePanic, fmt.Sprint(r)
		}
	}()
	err := bc.InsertChain(bl)
	code = classifyErr(err)
	if code == eOther {
		pmsg = err.Error()
	}
	return
}

func (w *world) batch(ix []int) types.Blocks {
	var bl types.Blocks
	for _, i := range ix {
		bl = append(bl, w.blocks[i])
	}
	return bl
}

// runs the first n batches on a fresh node, then the further block; returns the head
func (w *world) reference(c Case, n int, further *types.Block) uint64 {
	db := newLogDB()
	db.amp = c.Amp
	gspec().MustCommit(db)
	bc, err := newChainOn(w, db)
	if err != nil {
		panic(err)
	}
	for j := 0; j < n; j++ {
		if code, _ := insert(bc, w.batch(c.Batches[j])); code == ePanic {
			return 0 // (a panicking import leaves chainMu locked: the node cannot be stopped)
		}
	}
	code, _ := insert(bc, types.Blocks{further})
	id := w.blockID[bc.CurrentBlock().Hash()]
	if code != ePanic {
		bc.Stop()
	}
	return id
}

type dmgRes struct {
	Roots []uint64
	Ok    bool
	Head  uint64
	Cons  bool
}

// damage: restart on copies of the final database that lost the state root of the
// head (and of its parent): not a crash point of this code - every state is
// committed before the head moves - but the only way to reach loadLastState's repair
func (w *world) damage(db *logDB, head *types.Block, c Case, res *vf.Result, hits *[]interface{}) []dmgRes {
	var out []dmgRes
	sets := [][]common.Hash{{head.Root()}}
	if p := w.byID[w.blockID[head.ParentHash()]]; p != nil {
		sets = append(sets, []common.Hash{head.Root(), p.Root()})
	}
	for _, roots := range sets {
		m := db.dump()
		d := dmgRes{}
		for _, r := range roots {
			delete(m, string(r[:]))
			d.Roots = append(d.Roots, w.rootID[r])
		}
		cdb := restore(m)
		cdb.amp = c.Amp
		cbc, err := newChainOn(w, cdb)
		genesisLost := false
		for _, r := range roots {
			if r == w.genesis.Root() {
				genesisLost = true
			}
		}
		if err != nil {
			res.Count("damaged state: restart fails")
			if !genesisLost {
				*hits = append(*hits, hitT{What: "damaged-state: restart failed although the genesis state is there", Case: c, Note: err.Error()})
			}
		} else {
			d.Ok = true
			d.Head = w.blockID[cbc.CurrentBlock().Hash()]
			bad := w.judge(cbc, cdb)
			d.Cons = len(bad) == 0
			if d.Head != w.blockID[head.Hash()] {
				res.Count("damaged state: repair rewinds the head")
			} else {
				res.Count("damaged state: head keeps its state (shared root)")
			}
			for _, b := range bad {
				// the lookups of the blocks above the rewound head are still there: expected
				// for a damaged database, only the chain clauses are judged here
				if b != "lookup-into-noncanonical" {
					*hits = append(*hits, hitT{What: "damaged-state: " + b, Case: c})
				}
			}
			cbc.Stop()
		}
		out = append(out, d)
	}
	return out
}

// relevantWrite: the write touches something the model knows about
func (w *world) relevantWrite(wr write) bool {
	for _, e := range wr.Elems {
		switch e.Kind {
		case kPre, kOther:
		case kNode:
			if _, ok := w.rootID[e.Hash]; ok {
				return true
			}
		default:
			return true
		}
	}
	return false
}

func (w *world) run(c Case, res *vf.Result, hits *[]interface{}) ([]stepRes, []dmgRes) {
	db := newLogDB()
	db.amp = c.Amp
	db.relevant = w.relevantWrite
	gspec().MustCommit(db)
	bc, err := newChainOn(w, db)
	if err != nil {
		panic(err)
	}
	panicked := false
	defer func() {
		if !panicked {
			bc.Stop()
		}
	}()
	var out []stepRes
	lastObs := w.abstractDB(db.dump(), bc.CurrentBlock().Hash())
	addHit := func(what string, step, crash int, note string) {
		res.Count("ORACLE " + what)
		*hits = append(*hits, hitT{What: what, Case: c, Step: step, Crash: crash, Note: note})
	}
	for j, ix := range c.Batches {
		bl := w.batch(ix)
		sr := stepRes{}
		for _, i := range ix {
			sr.Batch = append(sr.Batch, uint64(i+2))
		}
		db.log, db.snaps = nil, nil
		db.on, db.snap = true, len(c.Crash) <= j || c.Crash[j]
		sr.Err, sr.Panic = insert(bc, bl)
		db.on, db.snap = false, false
		res.Count("import " + errNames[sr.Err])
		if sr.Err == eOther {
			panic("c11: unclassified error: " + sr.Panic)
		}
		var snaps []map[string][]byte
		var mids []bool
		var sws []bool
		for k, wr := range db.log {
			aw, sw := w.abstractWrite(wr)
			if len(aw) == 0 {
				continue
			}
			sr.Log = append(sr.Log, aw)
			sws = append(sws, sw)
			if k < len(db.snaps) {
				snaps = append(snaps, db.snaps[k])
			}
			for _, e := range wr.Elems {
				res.Count("write " + e.Kind)
			}
		}
		// inner writes of a head switch: switch-kind writes except a head-block
		// marker that is followed by block data (or by nothing)
		for k := range sr.Log {
			mid := sws[k]
			if mid && strings.HasPrefix(sr.Log[k][len(sr.Log[k])-1], "WHeadB") && (k+1 == len(sr.Log) || !sws[k+1]) {
				mid = false
			}
			mids = append(mids, mid)
		}
		db.log, db.snaps = nil, nil
		for _, wl := range sr.Log {
			var x uint64
			if n, _ := fmt.Sscanf(wl[len(wl)-1], "WHeadB %d", &x); n == 1 {
				w.executed[x] = true // the block this head switch was made for
			}
		}
		if w.deleted > 0 {
			addHit("import deleted a stored header, body or receipt", j, 0, fmt.Sprint(w.deleted, " deletions"))
			w.deleted = 0
		}
		prevObs := lastObs
		sr.Obs = w.abstractDB(db.dump(), bc.CurrentBlock().Hash())
		lastObs = sr.Obs
		// outcome classes of the batch, read off the implementation's own writes
		{
			old := map[uint64]uint64{}
			for _, p := range prevObs.Canon {
				old[p[0]] = p[1]
			}
			replaced, stored, heads, skipped := 0, 0, 0, false
			for _, wl := range sr.Log {
				canonInBatch, replacedInBatch := 0, 0
				for _, e := range wl {
					var a, b uint64
					if n, _ := fmt.Sscanf(e, "WCanon %d %d", &a, &b); n == 2 {
						canonInBatch++
						if o, ok := old[a]; ok && o != b {
							replacedInBatch++
						}
					}
				}
				// reorg(head, block) with an empty old chain: the head is an ancestor two or
				// more blocks below, the blocks in between are staged by the new-chain walk only
				if canonInBatch >= 3 && replacedInBatch == 0 {
					skipped = true
				}
				for _, e := range wl {
					var a, b uint64
					if n, _ := fmt.Sscanf(e, "WCanon %d %d", &a, &b); n == 2 {
						if o, ok := old[a]; ok && o != b {
							replaced++
						}
					}
					if strings.HasPrefix(e, "WHdr") {
						stored++
					}
					if strings.HasPrefix(e, "WHeadB") {
						heads++
					}
				}
			}
			numOf := func(id uint64) uint64 { return w.byID[id].NumberU64() }
			if skipped {
				res.Count("batch: head jumps over stored blocks (reorg with empty old chain)")
			}
			switch {
			case sr.Err == eNone && len(sr.Log) == 0:
				res.Count("batch: nothing written (known / future / empty)")
			case stored > 0 && heads == 0:
				res.Count("batch: stored as side chain only")
			case replaced > 0 && numOf(sr.Obs.Head) < numOf(prevObs.Head):
				res.Count("batch: reorg to a shorter fork")
			case replaced > 0:
				res.Count("batch: reorg replacing canonical entries")
			case heads > 0:
				res.Count("batch: head extended")
			}
			for _, i := range ix {
				if w.specs[i].HV == hvFuture {
					res.Count("batch containing a future block")
					break
				}
			}
		}
		if sr.Err == ePanic {
			panicked = true
			addHit("panic during import", j, 0, sr.Panic)
			out = append(out, sr)
			return out, nil
		}
		sr.Bad = w.judge(bc, db)
		sr.Cons = len(sr.Bad) == 0
		for _, b := range sr.Bad {
			addHit("after import: "+b, j, 0, "")
		}
		// the same database seen by a fresh process (nothing the running process remembers counts)
		if !c.Big {
			fdb := restore(db.dump())
			if fbc, err := newChainOn(w, fdb); err != nil {
				addHit("restart after import failed", j, 0, err.Error())
			} else {
				if fbc.CurrentBlock().Hash() != bc.CurrentBlock().Hash() {
					addHit("after import: a fresh process over the same database has another head than the running one", j, 0,
						fmt.Sprintf("fresh %d, running %d", w.blockID[fbc.CurrentBlock().Hash()], w.blockID[bc.CurrentBlock().Hash()]))
				}
				for _, b := range w.judge(fbc, fdb) {
					addHit("after import, fresh process: "+b, j, 0, "")
				}
				fbc.Stop()
			}
		}
		// the further valid block: an empty child of the crash-free head
		headID := w.blockID[bc.CurrentBlock().Hash()]
		var further *types.Block
		if (headID == 1 || (int(headID-2) < len(w.specs) && w.valid(int(headID-2)))) && !(c.Big && len(snaps) == 0) {
			hb := w.byID[headID]
			further = w.child(hb, nil, 100+j)
			sr.Further = w.register(further)
			sr.FHead = w.reference(c, j+1, further)
		}
		// crash points
		for k, snap := range snaps {
			cr := crashRes{Mid: mids[k]}
			where := "crash: "
			if cr.Mid {
				where = "crash-in-head-switch: "
			} else if last := sr.Log[k][len(sr.Log[k])-1]; strings.HasPrefix(last, "WBody") || strings.HasPrefix(last, "WHNum") {
				where = "crash-in-block-write: " // a body without its header is on disk
				res.Count("crash-points in block write")
			}
			cdb := restore(snap)
			cdb.amp = c.Amp
			cbc, err := newChainOn(w, cdb)
			if err != nil {
				addHit(where+"restart failed", j, k+1, err.Error())
				sr.Crash = append(sr.Crash, cr)
				continue
			}
			cr.Ok = true
			cr.Head = w.blockID[cbc.CurrentBlock().Hash()]
			cr.Bad = w.judge(cbc, cdb)
			cr.Cons = len(cr.Bad) == 0
			for _, b := range cr.Bad {
				addHit(where+b, j, k+1, "")
			}
			res.Count("crash-points")
			if cr.Mid {
				res.Count("crash-points in head switch")
			}
			if len(w.judge(cbc, cdb)) == 0 && cr.Head != prevObs.Head && cr.Head != sr.Obs.Head {
				res.Count("crash-points restarting consistent on an intermediate head")
			}
			var pm string
			cpanic := false
			cr.RErr, pm = insert(cbc, bl)
			cr.RHead = w.blockID[cbc.CurrentBlock().Hash()]
			if cr.RErr != ePanic {
				ro := w.abstractDB(cdb.dump(), cbc.CurrentBlock().Hash())
				if df := obsDiff(ro, sr.Obs); df == "" {
					res.Count("re-import: database and head equal the crash-free node's")
				} else {
					res.Count("re-import: differs from the crash-free node in " + df)
					if _, ok := res.Extra["diff "+df]; !ok {
						res.Extra["diff "+df] = map[string]interface{}{"case": c, "step": j, "crash": k + 1, "got": ro, "want": sr.Obs}
					}
				}
			}
			if cr.RErr == ePanic {
				cpanic = true
				addHit(where+"panic when the interrupted batch is offered again", j, k+1, pm)
			} else if further != nil {
				if code, pm := insert(cbc, types.Blocks{further}); code == ePanic {
					cpanic = true
					addHit(where+"panic when the further block is offered", j, k+1, pm)
				}
				cr.FHead = w.blockID[cbc.CurrentBlock().Hash()]
				if cr.FHead != sr.FHead {
					what := "wedged: head differs from the node that never crashed"
					if w.isAncestor(sr.Obs.Head, prevObs.Head) {
						// the interrupted import moved the head BACK onto a re-imported canonical ancestor
						what = "wedged: the import rewound the head onto a re-imported ancestor; head differs from the node that never crashed"
					}
					addHit(where+what, j, k+1, fmt.Sprintf("crashed node %d, crash-free node %d", cr.FHead, sr.FHead))
				} else if bad := w.judge(cbc, cdb); len(bad) > 0 {
					for _, b := range bad {
						addHit(where+"after re-import: "+b, j, k+1, "")
					}
				}
			}
			if !cpanic {
				cbc.Stop()
			}
			sr.Crash = append(sr.Crash, cr)
		}
		out = append(out, sr)
	}
	// process-history determinism: the same offers applied by a process that is restarted
	// between every call end in the same database and head
	if !c.Big {
		rdb := newLogDB()
		rdb.amp = c.Amp
		gspec().MustCommit(rdb)
		var rhead common.Hash
		rpanic := false
		for j, ix := range c.Batches {
			rbc, err := newChainOn(w, rdb)
			if err != nil {
				addHit("process-history: restart failed", j, 0, err.Error())
				rpanic = true
				break
			}
			code, _ := insert(rbc, w.batch(ix))
			rhead = rbc.CurrentBlock().Hash()
			if code == ePanic {
				rpanic = true
				break
			}
			rbc.Stop()
		}
		if !rpanic {
			if df := obsDiff(w.abstractDB(rdb.dump(), rhead), lastObs); df != "" {
				addHit("process-history: a long-lived process and a process restarted between the calls end in different databases ("+df+")", len(c.Batches)-1, 0, "")
			} else {
				res.Count("process-history: restarted-between-calls run ends in the same database and head")
			}
		}
	}
	return out, w.damage(db, bc.CurrentBlock(), c, res, hits)
}

// ---- Coq output ---------------------------------------------------------------------

func nlist(x []uint64) string {
	s := make([]string, len(x))
	for i, v := range x {
		s[i] = fmt.Sprint(v)
	}
	return "[" + strings.Join(s, ";") + "]"
}
func plist(x []pair) string {
	s := make([]string, len(x))
	for i, v := range x {
		s[i] = fmt.Sprintf("(%d,%d)", v[0], v[1])
	}
	return "[" + strings.Join(s, ";") + "]"
}

func (w *world) treeCoq() string {
	ids := make([]uint64, 0, len(w.byID))
	for id := range w.byID {
		ids = append(ids, id)
	}
	sort.Slice(ids, func(i, j int) bool { return ids[i] < ids[j] })
	var xs []string
	for _, id := range ids {
		b := w.byID[id]
		par := w.blockID[b.ParentHash()] // 0 for the genesis' zero parent and for parents outside the tree
		var txs []uint64
		for _, tx := range b.Transactions() {
			txs = append(txs, w.txID[tx.Hash()])
		}
		hv, bv := 0, 0
		if id >= 2 && int(id-2) < len(w.specs) {
			hv, bv = w.specs[id-2].HV, w.specs[id-2].BV
		}
		xs = append(xs, fmt.Sprintf("mkB %d %d %d %d %s %d %d", id, par, b.NumberU64(), w.rootID[b.Root()], nlist(txs), hv, bv))
	}
	return "[" + strings.Join(xs, ";\n   ") + "]"
}

func obsCoq(o Obs) string {
	return fmt.Sprintf("(mkO %d %d %d %s %s %s %s %s %s %s)", o.Head, o.HeadB, o.HeadH, plist(o.Canon), nlist(o.State), nlist(o.Hdr), nlist(o.Body), nlist(o.HNum), nlist(o.Rcpt), plist(o.Look))
}

func stepCoq(s stepRes) string {
	var ws []string
	for _, w := range s.Log {
		ws = append(ws, "["+strings.Join(w, ";")+"]")
	}
	var cs []string
	for _, c := range s.Crash {
		cs = append(cs, fmt.Sprintf("mkCr %s %d %s %s %d %d %d", vf.Bool(c.Ok), c.Head, vf.Bool(c.Cons), vf.Bool(c.Mid), c.RErr, c.RHead, c.FHead))
	}
	return fmt.Sprintf("mkStep %s %d [%s] %s %s %d %d\n     [%s]", nlist(s.Batch), s.Err, strings.Join(ws, ";"), obsCoq(s.Obs), vf.Bool(s.Cons), s.Further, s.FHead, strings.Join(cs, ";\n      "))
}

func caseCoq(w *world, steps []stepRes, dmg []dmgRes) string {
	var ss []string
	for _, s := range steps {
		ss = append(ss, stepCoq(s))
	}
	var ds []string
	for _, d := range dmg {
		ds = append(ds, fmt.Sprintf("mkDmg %s %s %d %s", nlist(d.Roots), vf.Bool(d.Ok), d.Head, vf.Bool(d.Cons)))
	}
	return "mkCase\n  " + w.treeCoq() + "\n  [" + strings.Join(ss, ";\n   ") + "]\n  [" + strings.Join(ds, "; ") + "]"
}

// ---- corpus / gen / replay -------------------------------------------------------------

func loadCorpus(dir string) []Case {
	var out []Case
	files, _ := filepath.Glob(filepath.Join(dir, "*.json"))
	sort.Strings(files)
	for _, f := range files {
		b, err := ioutil.ReadFile(f)
		if err != nil {
			continue
		}
		var c Case
		if json.Unmarshal(b, &c) == nil && len(c.Tree) > 0 {
			c.Comment = "corpus:" + filepath.Base(f)
			out = append(out, c)
		}
	}
	return out
}

func gen(seed uint64, n int, outDir, corpusDir string) {
	r := vf.NewRng(seed)
	res := vf.NewResult("C11", seed)
	var sb strings.Builder
	sb.WriteString("From VF.C11 Require Import Model.\nLocal Open Scope N_scope.\nDefinition cases : list case := [\n")
	distinct := map[string]bool{}
	ncases, nbig, nsolo := 0, 0, 0
	emit := func(c Case) {
		w := newWorld(c.Tree)
		w.solo = c.Solo
		steps, dmg := w.run(c, res, &res.OracleHits)
		if c.Solo {
			// the model follows the ucon-like engine: cases under the solo engine are judged by the oracle only
			res.Count("solo-engine case (oracle only)")
			nsolo++
			return
		}
		if c.Big {
			// real-size case: judged by the oracle only
			res.Count("real-size case (oracle only)")
			nbig++
			return
		}
		if ncases > 0 {
			sb.WriteString(";\n")
		}
		sb.WriteString(caseCoq(w, steps, dmg))
		key, _ := json.Marshal(c)
		nontrivial := false
		for _, s := range steps {
			if len(s.Log) > 0 {
				nontrivial = true
			}
		}
		if nontrivial {
			distinct[string(key)] = true
		}
		res.CaseDescs = append(res.CaseDescs, c)
		if len(res.Samples) < 4 {
			res.Samples = append(res.Samples, map[string]interface{}{"case": c, "steps": steps})
		}
		ncases++
	}
	for _, c := range loadCorpus(corpusDir) {
		emit(c)
		res.Count("corpus")
	}
	for ncases < n {
		emit(randCase(r, res))
	}
	// under the solo engine (no header check looks at the ancestry): a rejected block and,
	// in later calls, its descendants - one per 12 cases
	for nsolo < 4+n/12 {
		c := rejectedCase(r, res)
		for i := range c.Tree {
			c.Tree[i].HV = 0
		}
		c.Solo = true
		emit(c)
	}
	// a few real-size cases per run: a re-adopted long branch whose staged lookups cross
	// youdb.IdealBatchSize without any amplification (one per 900 cases, at least one)
	for nbig < 1+n/900 {
		emit(bigCase(r, res))
	}
	sb.WriteString("].\nDefinition M := Eval vm_compute in mismatches cases.\nPrint M.\n")
	vf.WriteFile(filepath.Join(outDir, "Cases.v"), sb.String())
	res.Cases = ncases
	res.Distinct = len(distinct)
	res.Rule = "one case = one labelled block tree (real chain maker; <= 12 blocks, forks, shared and distinct state roots, invalid and future blocks) and one sequence of batches offered to InsertChain (in order, out of order, duplicated, overlapping the canonical chain, competing forks, non-contiguous); for every batch: error class, classified write sequence, abstract database; for every write of the batch: restart on the frozen database, re-offer the batch, offer one further valid block; non-trivial = at least one write reached the database; distinct by full input"
	res.Write(filepath.Join(outDir, "result.json"))
}

func replay(file string) {
	b, err := ioutil.ReadFile(file)
	if err != nil {
		fmt.Println(err)
		os.Exit(2)
	}
	var h struct {
		Case *Case `json:"case"`
	}
	var c Case
	if err := json.Unmarshal(b, &h); err != nil {
		fmt.Println(err)
		os.Exit(2)
	}
	if h.Case != nil {
		c = *h.Case
	} else if err := json.Unmarshal(b, &c); err != nil {
		fmt.Println(err)
		os.Exit(2)
	}
	res := vf.NewResult("C11", 0)
	w := newWorld(c.Tree)
	w.solo = c.Solo
	steps, _ := w.run(c, res, &res.OracleHits)
	for j, s := range steps {
		fmt.Printf("batch %d %v: %s, head %d, %d writes, %d crash points, consistent=%v %v\n", j, s.Batch, errNames[s.Err], s.Obs.Head, len(s.Log), len(s.Crash), s.Cons, s.Bad)
	}
	rc := 0
	seen := map[string]bool{}
	for _, x := range res.OracleHits {
		hh := x.(hitT)
		if seen[hh.What] {
			continue
		}
		seen[hh.What] = true
		fmt.Printf("ORACLE VIOLATION: %s (batch %d, after write %d) %s\n", hh.What, hh.Step, hh.Crash, hh.Note)
		rc = 1
	}
	os.Exit(rc)
}

func main() {
	mode := ""
	if len(os.Args) > 1 {
		mode = os.Args[1]
		os.Args = append(os.Args[:1], os.Args[2:]...)
	}
	seed := flag.Uint64("seed", 1, "")
	n := flag.Int("n", 40, "")
	out := flag.String("out", ".", "")
	corpus := flag.String("corpus", "/verif/corpus/C11", "")
	file := flag.String("file", "", "")
	wd := flag.Int("watchdog", 1500, "")
	flag.Parse()
	params.InitNetworkId(params.NetworkIdForTestCase)
	logging.Root().SetHandler(logging.DiscardHandler())
	go func() { // watchdog: a hung import must fail loudly, not hang the check
		time.Sleep(time.Duration(*wd) * time.Second)
		buf := make([]byte, 1<<16)
		n := runtime.Stack(buf, true)
		fmt.Fprintf(os.Stderr, "c11: watchdog after %d s\n%s\n", *wd, buf[:n])
		os.Exit(3)
	}()
	switch mode {
	case "gen":
		gen(*seed, *n, *out, *corpus)
	case "replay":
		replay(*file)
	case "calls":
		callsTranslator(*out)
	default:
		fmt.Println("usage: c11 gen|replay")
		os.Exit(2)
	}
}

// ---- generators ----------------------------------------------------------------------

func depthOf(tree []BlockSpec, i int) int {
	d := 1
	for tree[i].Parent >= 0 {
		i = tree[i].Parent
		d++
	}
	return d
}

func pathTo(tree []BlockSpec, x, l int) []int {
	var p []int
	for i := x; i >= 0 && len(p) < l; i = tree[i].Parent {
		p = append([]int{i}, p...)
	}
	return p
}

// competing forks: a trunk, then one or two forks offered in pieces so that they
// are first stored as side chains and later adopted
func forkCase(r *vf.Rng, res *vf.Result) Case {
	var c Case
	uniq := r.Chance(50)
	add := func(parent int) int {
		i := len(c.Tree)
		s := BlockSpec{Parent: parent, Salt: i + 1}
		if uniq {
			s.Txs = append(s.Txs, 1000+i)
		}
		if r.Chance(50) {
			for k := 0; k <= r.Intn(2); k++ {
				s.Txs = append(s.Txs, 1+r.Intn(3))
			}
		}
		c.Tree = append(c.Tree, s)
		return i
	}
	L := 1 + r.Intn(4)
	trunk := []int{}
	p := -1
	for i := 0; i < L; i++ {
		p = add(p)
		trunk = append(trunk, p)
	}
	c.Batches = append(c.Batches, trunk)
	for f := 0; f <= r.Intn(2) && len(c.Tree) < 11; f++ {
		d := r.Intn(L+1) - 1 // fork point: index into trunk, -1 = genesis
		p = -1
		if d >= 0 {
			p = trunk[d]
		}
		F := 1 + r.Intn(L-d+1)
		var fork []int
		for i := 0; i < F && len(c.Tree) < 12 && depthOf2(c.Tree, p) < 8; i++ {
			p = add(p)
			fork = append(fork, p)
		}
		if len(fork) == 0 {
			continue
		}
		// offered in growing pieces, sometimes with the shared trunk in front
		for k := 1 + r.Intn(len(fork)); ; k += 1 + r.Intn(2) {
			if k > len(fork) {
				k = len(fork)
			}
			piece := append([]int{}, fork[:k]...)
			if r.Chance(30) && d >= 0 {
				piece = append(append([]int{}, trunk[:d+1]...), piece...)
			}
			c.Batches = append(c.Batches, piece)
			if k == len(fork) {
				break
			}
		}
		if r.Chance(40) {
			c.Batches = append(c.Batches, trunk[r.Intn(len(trunk)):])
		}
	}
	if r.Chance(25) {
		i := r.Intn(len(c.Tree))
		if r.Bool() {
			c.Tree[i].HV = 1 + r.Intn(3)
		} else {
			c.Tree[i].BV = 1 + r.Intn(7)
		}
		res.Count("tree with invalid or future blocks")
	}
	res.Count("tree with forks")
	res.Count("competing-forks case")
	if uniq {
		res.Count("tree with pairwise distinct state roots")
	} else {
		res.Count("tree with shared state roots")
	}
	return c
}

func depthOf2(tree []BlockSpec, i int) int {
	if i < 0 {
		return 0
	}
	return depthOf(tree, i)
}

// a fork with a skipped block in the middle: an empty block labelled "future" is
// stored by the side-chain path (which does not look at the time), skipped by
// insertChain when the fork is adopted, and its child - processed on the skipped
// block's state root, which is its parent's - is written while the head is still
// two or more blocks below: reorg(head, block) with an EMPTY old chain, the only
// way the blocks in between become canonical is reorg's walk of the new chain.
func skipCase(r *vf.Rng, res *vf.Result) Case {
	var c Case
	add := func(parent int, empty bool) int {
		i := len(c.Tree)
		s := BlockSpec{Parent: parent, Salt: i + 1}
		if !empty && r.Chance(60) {
			for k := 0; k <= r.Intn(2); k++ {
				s.Txs = append(s.Txs, 1+r.Intn(3))
			}
		}
		c.Tree = append(c.Tree, s)
		return i
	}
	L := r.Intn(4) // trunk length, may be 0
	p := -1
	var trunk []int
	for i := 0; i < L; i++ {
		p = add(p, false)
		trunk = append(trunk, p)
	}
	d := -1 // fork point
	if L > 0 {
		d = r.Intn(L+1) - 1
	}
	p = -1
	if d >= 0 {
		p = trunk[d]
	}
	m := L - d + r.Intn(3) // fork length: longer than the rest of the trunk
	if m < 3 {
		m = 3
	}
	if m > 6 {
		m = 6
	}
	nskip := 1 + r.Intn(2)
	first := 1 + r.Intn(m-2) // index in the fork of the first skipped block (never the fork's first or last)
	var fork []int
	for i := 0; i < m; i++ {
		skip := i >= first && i < first+nskip && i < m-1
		p = add(p, skip)
		if skip {
			c.Tree[p].HV = hvFuture
		}
		fork = append(fork, p)
	}
	if len(trunk) > 0 {
		c.Batches = append(c.Batches, trunk)
	} else {
		// something canonical at height 1 so that the fork goes through the side-chain path
		x := add(-1, false)
		c.Batches = append(c.Batches, []int{x})
	}
	if r.Chance(40) {
		c.Batches = append(c.Batches, fork[:1+r.Intn(first)])
	}
	c.Batches = append(c.Batches, fork)
	if r.Chance(50) {
		c.Batches = append(c.Batches, fork[r.Intn(len(fork)):])
	}
	if r.Chance(40) && len(trunk) > 0 {
		c.Batches = append(c.Batches, trunk)
	}
	if r.Chance(30) {
		c.Batches = append(c.Batches, fork)
	}
	res.Count("tree with forks")
	res.Count("tree with invalid or future blocks")
	res.Count("tree with shared state roots")
	res.Count("skipped-block-in-fork case")
	return c
}

// real-size reorg: trunk A1..An with many transactions, a switch to the shorter fork
// A1-B2 (B2 carries a transaction of its own), then A(n+1) alone: reorg(B2, A(n+1))
// stages A2..A(n+1) with all their lookups - more than 100 KiB - and the deletion
// of B2's lookup in one batch.  Crash points are enumerated on the last import only.
func bigCase(r *vf.Rng, res *vf.Result) Case {
	var c Case
	n := 24 + r.Intn(8)
	per := 100 + r.Intn(30)
	val := 1
	p := -1
	var trunk []int
	for i := 0; i < n; i++ {
		s := BlockSpec{Parent: p, Salt: i + 1}
		for k := 0; k < per; k++ {
			s.Txs = append(s.Txs, 1+val%3)
			val++
		}
		c.Tree = append(c.Tree, s)
		p = len(c.Tree) - 1
		trunk = append(trunk, p)
	}
	b2 := len(c.Tree)
	c.Tree = append(c.Tree, BlockSpec{Parent: trunk[0], Salt: 200, Txs: []int{7}})
	next := len(c.Tree)
	c.Tree = append(c.Tree, BlockSpec{Parent: trunk[n-1], Salt: 201, Txs: []int{1}})
	c.Batches = [][]int{trunk, {trunk[0], b2}, {next}}
	c.Crash = []bool{false, false, true}
	c.Big = true
	return c
}

// a canonical block without its own state, offered again: the trunk block C1 carries
// the transactions of X1 and X2 together, so X2's state root is on disk although X1
// and X2 are only stored; X3 imports directly on X2 and reorg makes X1 canonical
// without executing it; then X1 (or X1,X2 / the whole fork) is offered again
func restateCase(r *vf.Rng, res *vf.Result) Case {
	var c Case
	a, b := 1+r.Intn(3), 1+r.Intn(3)
	c.Tree = append(c.Tree, BlockSpec{Parent: -1, Txs: []int{a, b}, Salt: 1}) // 0: C1
	last := 0
	for i := 0; i < 1+r.Intn(2); i++ { // trunk at least as long as X1,X2
		c.Tree = append(c.Tree, BlockSpec{Parent: last, Salt: len(c.Tree) + 1})
		last = len(c.Tree) - 1
	}
	trunk := make([]int, len(c.Tree))
	for i := range trunk {
		trunk[i] = i
	}
	x1 := len(c.Tree)
	c.Tree = append(c.Tree, BlockSpec{Parent: -1, Txs: []int{a}, Salt: x1 + 1})
	x2 := x1 + 1
	c.Tree = append(c.Tree, BlockSpec{Parent: x1, Txs: []int{b}, Salt: x2 + 1})
	fork := []int{x1, x2}
	p := x2
	for len(fork) <= len(trunk)+r.Intn(2) {
		s := BlockSpec{Parent: p, Salt: len(c.Tree) + 1}
		if r.Chance(40) {
			s.Txs = []int{1 + r.Intn(3)}
		}
		c.Tree = append(c.Tree, s)
		p = len(c.Tree) - 1
		fork = append(fork, p)
	}
	c.Batches = [][]int{trunk, {x1, x2}, fork[2:]}
	switch r.Intn(4) {
	case 0:
		c.Batches = append(c.Batches, []int{x1})
	case 1:
		c.Batches = append(c.Batches, []int{x1, x2})
	case 2:
		c.Batches = append(c.Batches, fork)
	default:
		c.Batches = append(c.Batches, []int{x1}, fork)
	}
	if r.Chance(40) {
		c.Batches = append(c.Batches, trunk)
	}
	res.Count("tree with forks")
	res.Count("tree with shared state roots")
	res.Count("re-offered canonical block without own state case")
	return c
}

// every third case runs with batches that over-report their size by a factor of
// 2^20: any "flush the batch when it reaches IdealBatchSize" site fires after the
// first entry, as it would on mainnet-sized data
func randCase(r *vf.Rng, res *vf.Result) Case {
	c := randCase0(r, res)
	if r.Chance(34) {
		c.Amp = 1 << 20
		res.Count("case with amplified batch sizes (size thresholds fire early)")
	}
	return c
}

// the head moves DOWN and the old branch (or a sibling) is re-adopted above it: trunk
// A1..An; [A1..Ak, B] with B a sibling of A(k+1) switches to the shorter fork and
// leaves the number entries k+2..n of the old branch in place (stale, above the head);
// then a block whose parent is not the head and lies above it is imported while those
// entries cover the heights in between: A(n+1) on An (direct import, reorg stages
// A(k+1)..A(n+1) over the stale entries), or C on some Aj (its height is occupied:
// side-chain path, the stale Aj is the anchor), then more of either.
func downUpCase(r *vf.Rng, res *vf.Result) Case {
	var c Case
	uniq := r.Chance(60)
	add := func(parent int) int {
		i := len(c.Tree)
		s := BlockSpec{Parent: parent, Salt: i + 1}
		if uniq {
			s.Txs = append(s.Txs, 1000+i)
		}
		if r.Chance(50) {
			s.Txs = append(s.Txs, 1+r.Intn(3))
		}
		c.Tree = append(c.Tree, s)
		return i
	}
	n := 3 + r.Intn(3)
	p := -1
	var trunk []int
	for i := 0; i < n; i++ {
		p = add(p)
		trunk = append(trunk, p)
	}
	c.Batches = append(c.Batches, trunk)
	k := r.Intn(n - 2) // B is a sibling of trunk[k+1]: the head drops to height k+2 <= n-1
	b := add(trunk[k])
	down := append(append([]int{}, trunk[:k+1]...), b)
	c.Batches = append(c.Batches, down)
	if r.Chance(30) && k+3 < n { // one more block on the short fork, still below the old tip
		b2 := add(b)
		c.Batches = append(c.Batches, []int{b2})
	}
	top := trunk[n-1]
	for i := 0; i < 1+r.Intn(2) && depthOf(c.Tree, top) < 8; i++ {
		switch r.Intn(3) {
		case 0, 1: // extend the old branch beyond its stale tip
			x := add(top)
			batch := []int{x}
			if r.Chance(30) && depthOf(c.Tree, x) < 8 {
				y := add(x)
				batch = append(batch, y)
				x = y
			}
			c.Batches = append(c.Batches, batch)
			top = x
		default: // a sibling branch from the middle of the stale part
			j := k + 1 + r.Intn(n-k-1)
			x := add(trunk[j])
			batch := []int{x}
			for depthOf(c.Tree, x) <= n && depthOf(c.Tree, x) < 8 { // long enough to be adopted
				y := add(x)
				batch = append(batch, y)
				x = y
			}
			c.Batches = append(c.Batches, batch)
		}
	}
	if r.Chance(30) {
		c.Batches = append(c.Batches, trunk)
	}
	res.Count("tree with forks")
	res.Count("head lowered, then re-adoption above it case")
	if uniq {
		res.Count("tree with pairwise distinct state roots")
	} else {
		res.Count("tree with shared state roots")
	}
	return c
}

// an invalid block of every kind at every position of every dispatch path: inside a
// competing fork that outgrows the trunk (ErrExistCanonical at index 0 -> side chain
// -> handed back: every fork block has i > 0), behind a known prefix (ErrExistCanonical
// with i > 0 directly), on the plain path above the head, or below a stored child
func invalidCase(r *vf.Rng, res *vf.Result) Case {
	var c Case
	uniq := r.Chance(50)
	add := func(parent int) int {
		i := len(c.Tree)
		s := BlockSpec{Parent: parent, Salt: i + 1}
		if uniq {
			s.Txs = append(s.Txs, 1000+i)
		}
		if r.Chance(60) {
			s.Txs = append(s.Txs, 1+r.Intn(3))
		}
		c.Tree = append(c.Tree, s)
		return i
	}
	L := 2 + r.Intn(3)
	p := -1
	var trunk []int
	for i := 0; i < L; i++ {
		p = add(p)
		trunk = append(trunk, p)
	}
	d := r.Intn(L) - 1 // fork point (index into trunk, -1 = genesis), below the tip
	p = -1
	if d >= 0 {
		p = trunk[d]
	}
	F := L - d + r.Intn(2) // longer than the rest of the trunk
	var fork []int
	for i := 0; i < F && depthOf2(c.Tree, p) < 8; i++ {
		p = add(p)
		fork = append(fork, p)
	}
	if !uniq && r.Chance(50) && d+1 < L {
		// same content as the trunk block at that height: equal state roots
		c.Tree[fork[0]].Txs = append([]int{}, c.Tree[trunk[d+1]].Txs...)
	}
	bad := fork[r.Intn(len(fork))]
	switch r.Intn(3) {
	case 0:
		c.Tree[bad].HV = 1 + r.Intn(2)
	default:
		c.Tree[bad].BV = 1 + r.Intn(7)
	}
	c.Batches = append(c.Batches, trunk)
	switch r.Intn(4) {
	case 0: // whole fork: side chain, handed back
		c.Batches = append(c.Batches, fork)
	case 1: // behind the known prefix
		c.Batches = append(c.Batches, append(append([]int{}, trunk[:d+1]...), fork...))
	case 2: // in pieces
		k := 1 + r.Intn(len(fork))
		c.Batches = append(c.Batches, fork[:k], fork)
	default: // stored first (not longer), then the rest
		k := len(fork) - 1
		if k < 1 {
			k = 1
		}
		c.Batches = append(c.Batches, fork[:k], fork[k:], fork)
	}
	if r.Chance(50) {
		x := add(fork[len(fork)-1])
		c.Batches = append(c.Batches, []int{x})
	}
	if r.Chance(30) {
		c.Batches = append(c.Batches, trunk)
	}
	if r.Chance(60) && depthOf2(c.Tree, bad) < 7 {
		// later calls of the same process: children / grandchildren of the rejected block, the block again
		k1 := add(bad)
		k2 := add(k1)
		c.Batches = append(c.Batches, []int{k1})
		if r.Chance(50) {
			c.Batches = append(c.Batches, []int{bad})
		}
		c.Batches = append(c.Batches, []int{k1, k2})
		res.Count("descendants of a rejected block offered in later calls")
	}
	res.Count("tree with forks")
	res.Count("tree with invalid or future blocks")
	res.Count("invalid block inside a fork case")
	if uniq {
		res.Count("tree with pairwise distinct state roots")
	} else {
		res.Count("tree with shared state roots")
	}
	return c
}

// a block X that is REJECTED (any class; mostly the classes that pass the header checks
// and ValidateBody and fail after execution while the state root they claim is on disk:
// an empty child of the head, or a copy of an imported block, with gas used / receipt root /
// bloom altered), and afterwards - in later calls of the same process - its children and
// grandchildren (well-formed on top of X: built on the state X claims), X again, siblings,
// and finally a valid block on the head.  Nothing of X or below X may ever be stored or
// become canonical, whatever the process remembers about X.
func rejectedCase(r *vf.Rng, res *vf.Result) Case {
	var c Case
	add := func(parent int, txs []int) int {
		i := len(c.Tree)
		c.Tree = append(c.Tree, BlockSpec{Parent: parent, Salt: i + 1, Txs: txs})
		return i
	}
	rtx := func() []int {
		if r.Chance(55) {
			return []int{1 + r.Intn(3)}
		}
		return nil
	}
	L := 1 + r.Intn(3)
	p := -1
	var trunk []int
	for i := 0; i < L; i++ {
		p = add(p, rtx())
		trunk = append(trunk, p)
	}
	tip := trunk[L-1]
	var x int
	switch r.Intn(4) {
	case 0, 1: // empty child of the head: claims the head's state root
		x = add(tip, nil)
		res.Count("rejected block: empty child of the head")
	case 2: // copy of the head (same parent, same content): claims the head's state root
		x = add(c.Tree[tip].Parent, append([]int{}, c.Tree[tip].Txs...))
		res.Count("rejected block: copy of the head")
	default: // child of the head with new content: the claimed root is on disk only by coincidence
		x = add(tip, []int{1 + r.Intn(3)})
		res.Count("rejected block: child of the head with transactions")
	}
	switch k := r.Intn(10); {
	case k < 6:
		c.Tree[x].BV = []int{bvGasUsed, bvRcptRoot, bvBloom}[r.Intn(3)]
	case k < 9:
		c.Tree[x].BV = []int{bvTxRoot, bvRootKnown, bvRootAbsent, bvTxHashOnly}[r.Intn(4)]
	default:
		c.Tree[x].HV = 1 + r.Intn(2)
	}
	k1 := add(x, rtx())
	k2 := add(k1, rtx())
	k1b := add(x, []int{1 + r.Intn(3)})
	t1 := add(tip, rtx())
	if r.Chance(30) && L > 1 {
		c.Batches = append(c.Batches, trunk[:L-1], trunk[L-1:])
	} else {
		c.Batches = append(c.Batches, trunk)
	}
	c.Batches = append(c.Batches, []int{x})
	offers := [][]int{{k1}, {k1, k2}, {x}, {k2}, {x, k1}, {k1b}, {x, k1, k2}, {k1}}
	for n := 2 + r.Intn(3); n > 0; n-- {
		c.Batches = append(c.Batches, offers[r.Intn(len(offers))])
	}
	if r.Chance(60) {
		c.Batches = append(c.Batches, []int{t1})
		if r.Chance(40) {
			c.Batches = append(c.Batches, []int{k1, k2})
		}
	}
	res.Count("tree with invalid or future blocks")
	res.Count("tree with shared state roots")
	res.Count("rejected block, then its descendants in later calls")
	return c
}

func randCase0(r *vf.Rng, res *vf.Result) Case {
	if r.Chance(35) {
		return forkCase(r, res)
	}
	if r.Chance(15) {
		return invalidCase(r, res)
	}
	if r.Chance(14) {
		return rejectedCase(r, res)
	}
	if r.Chance(12) {
		return downUpCase(r, res)
	}
	if r.Chance(6) {
		return restateCase(r, res)
	}
	if r.Chance(15) {
		return skipCase(r, res)
	}
	var c Case
	nb := 1 + r.Intn(4)
	switch r.Intn(10) {
	case 0, 1, 2:
		nb = 3 + r.Intn(5)
	case 3, 4:
		nb = 6 + r.Intn(7)
	}
	uniq := r.Chance(40)
	if uniq {
		res.Count("tree with pairwise distinct state roots")
	} else {
		res.Count("tree with shared state roots")
	}
	for i := 0; i < nb; i++ {
		s := BlockSpec{Parent: i - 1, Salt: i + 1}
		if i > 0 && r.Chance(40) {
			s.Parent = r.Intn(i+1) - 1
		}
		if s.Parent >= 0 && depthOf(c.Tree, s.Parent) >= 8 {
			s.Parent = r.Intn(2) - 1
			if s.Parent >= i {
				s.Parent = -1
			}
		}
		if uniq {
			s.Txs = append(s.Txs, 1000+i)
		}
		if r.Chance(50) {
			for k := 0; k <= r.Intn(2); k++ {
				s.Txs = append(s.Txs, 1+r.Intn(3))
			}
		}
		c.Tree = append(c.Tree, s)
	}
	if r.Chance(30) {
		for k := 0; k <= r.Intn(2); k++ {
			i := r.Intn(nb)
			if r.Bool() {
				c.Tree[i].HV = 1 + r.Intn(3)
			} else {
				c.Tree[i].BV = 1 + r.Intn(7)
			}
		}
		res.Count("tree with invalid or future blocks")
	}
	forks := 0
	for i, s := range c.Tree {
		if s.Parent != i-1 {
			forks++
		}
	}
	if forks > 0 {
		res.Count("tree with forks")
	}
	nbatch := 1 + r.Heavy(12)
	inOrder := r.Chance(35)
	next := 0
	for j := 0; j < nbatch; j++ {
		var b []int
		switch {
		case len(c.Batches) > 0 && r.Chance(12): // duplicate an earlier batch
			b = c.Batches[r.Intn(len(c.Batches))]
		case r.Chance(3): // junk: two unrelated blocks
			b = []int{r.Intn(nb), r.Intn(nb)}
		case inOrder && next < nb: // branch by branch
			x := next
			for x+1 < nb && c.Tree[x+1].Parent == x && r.Chance(70) {
				x++
			}
			l := x - next + 1
			if r.Chance(30) {
				l += r.Intn(3) // overlap with what is already there
			}
			b = pathTo(c.Tree, x, l)
			next = x + 1
		default:
			x := r.Intn(nb)
			b = pathTo(c.Tree, x, 1+r.Intn(depthOf(c.Tree, x)))
		}
		c.Batches = append(c.Batches, b)
	}
	return c
}
