package main

// Test consensus engine for the C11 harness.
//
// Header verification is an oracle (DESIGN.md C11): the generator labels every
// block of a tree (good / bad signature / bad consensus field / future) and
// this engine answers accordingly.  Everything that is chain logic in
// ucon.Server.verifyHeader is mirrored here because core.insertChain's error
// dispatch depends on it: the order "future, signature, unknown ancestor,
// exist canonical, consensus field", the use of the preceding headers of the
// batch as parents, VerifySeal / VerifySideChainHeader not re-checking the
// cascading fields, and all three checking the signature.
//
// VerifyHeaders is computed eagerly (all verdicts at the time of the call, i.e.
// on the chain as it is when insertChain starts).  The real engine verifies in
// a goroutine that runs ahead of the importer by up to MinStakeLookBack-2
// headers, so this is one of its legal schedules and the only deterministic
// one.
//
// The type implements consensus.Ucon so that verifyAllSideChainBlocks really
// runs (for any other engine it is skipped).

import (
	"errors"
	"math/big"
	"time"

	"github.com/youchainhq/go-youchain/common"
	"github.com/youchainhq/go-youchain/consensus"
	"github.com/youchainhq/go-youchain/consensus/solo"
	"github.com/youchainhq/go-youchain/core/state"
	"github.com/youchainhq/go-youchain/core/types"
	"github.com/youchainhq/go-youchain/params"
)

const (
	hvGood    = 0
	hvBadSig  = 1 // rejected by the signature check: verifyHeader, VerifySeal, VerifySideChainHeader
	hvBadCons = 2 // rejected by the consensus-field check: verifyHeader (after the cascading checks), VerifySeal, VerifySideChainHeader
	hvFuture  = 3 // verifyHeader answers ErrFutureBlock
)

var (
	errBadSig  = errors.New("c11: invalid sealer")
	errBadCons = errors.New("c11: invalid consensus data")
)

type testEngine struct {
	*solo.Solo
	flags map[common.Hash]int
}

func newEngine(flags map[common.Hash]int) *testEngine {
	return &testEngine{Solo: solo.NewSolo(), flags: flags}
}

func (e *testEngine) verifyHeader(chain consensus.ChainReader, header *types.Header, parents []*types.Header, seal bool) error {
	fl := e.flags[header.Hash()]
	if fl == hvFuture {
		return consensus.ErrFutureBlock
	}
	if fl == hvBadSig {
		return errBadSig
	}
	number := header.Number.Uint64()
	if number == 0 {
		return nil
	}
	var parent *types.Header
	if len(parents) > 0 {
		parent = parents[len(parents)-1]
	} else {
		parent = chain.GetHeader(header.ParentHash, number-1)
	}
	if parent == nil || parent.Number.Uint64() != number-1 || parent.Hash() != header.ParentHash {
		return consensus.ErrUnknownAncestor
	}
	if header.Time <= parent.Time {
		return consensus.ErrOlderBlockTime
	}
	local := chain.GetHeaderByNumber(number)
	if local != nil && header.Hash() != local.Hash() {
		return consensus.ErrExistCanonical
	}
	if seal && fl == hvBadCons {
		return errBadCons
	}
	return nil
}

func (e *testEngine) VerifyHeader(chain consensus.ChainReader, header *types.Header, seal bool) error {
	return e.verifyHeader(chain, header, nil, seal)
}

func (e *testEngine) VerifyHeaders(chain consensus.ChainReader, headers []*types.Header, seals []bool) (chan<- struct{}, <-chan error) {
	abort := make(chan struct{}, 1)
	results := make(chan error, len(headers))
	for i, h := range headers {
		results <- e.verifyHeader(chain, h, headers[:i], seals[i])
	}
	return abort, results
}

func (e *testEngine) VerifySeal(chain consensus.ChainReader, header *types.Header) error {
	switch e.flags[header.Hash()] {
	case hvBadSig:
		return errBadSig
	case hvBadCons:
		return errBadCons
	}
	return nil
}

// ---- consensus.Ucon ------------------------------------------------------

func (e *testEngine) HandleMsg(data []byte, receivedAt time.Time) error { return nil }
func (e *testEngine) NewChainHead(block *types.Block)                   {}

// look-back of two rounds for every kind (the real values are protocol
// parameters; only "strictly before the block" matters to core)
func (e *testEngine) GetLookBackBlockNumber(cp *params.CaravelParams, num *big.Int, lbType params.LookBackType) *big.Int {
	if num.Cmp(big.NewInt(2)) > 0 {
		return new(big.Int).Sub(num, big.NewInt(2))
	}
	return big.NewInt(0)
}

func (e *testEngine) VerifySideChainHeader(cp *params.CaravelParams, seedHeader *types.Header, vldReader state.ValidatorReader, certHeader *types.Header, certVldReader state.ValidatorReader, block *types.Block, parents []*types.Block) error {
	l := len(parents)
	if l <= 0 {
		return errors.New("no parents")
	}
	parentHeader := parents[l-1].Header()
	header := block.Header()
	if header.Number.Uint64() != parentHeader.Number.Uint64()+1 || header.ParentHash != parentHeader.Hash() {
		return consensus.ErrUnknownAncestor
	}
	if e.flags[header.Hash()] == hvBadSig { // verifySignature
		return errBadSig
	}
	if seedHeader == nil {
		return errors.New("c11: nil seed header")
	}
	if e.flags[header.Hash()] == hvBadCons {
		return errBadCons
	}
	return nil
}

func (e *testEngine) VerifyAcHeader(chain consensus.ChainReader, acHeader *types.Header, verifiedAcParents []*types.Header) error {
	return errors.New("c11: not an ac header")
}
