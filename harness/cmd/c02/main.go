// C02 harness: drives the real ucon.VoteDB (the gate every emitted vote of a
// Voter passes: Voter.vote -> VoteDB.UpdateVoteData) over a memory database
// with random histories of context changes, vote attempts, restarts and
// crashes inside UpdateVoteData; records the per-op results for the Coq model
// and checks the property oracle (at most one vote per kind and round/index,
// two for next-index) on what the implementation let out.
package main

import (
	"encoding/json"
	"flag"
	"fmt"
	"io/ioutil"
	"math/big"
	"os"
	"path/filepath"
	"sort"
	"strings"

	"crypto/ecdsa"
	"sync"
	"time"

	"github.com/youchainhq/go-youchain/bls"
	"github.com/youchainhq/go-youchain/common"
	"github.com/youchainhq/go-youchain/consensus/ucon"
	"github.com/youchainhq/go-youchain/core/state"
	"github.com/youchainhq/go-youchain/core/types"
	"github.com/youchainhq/go-youchain/crypto"
	"github.com/youchainhq/go-youchain/event"
	"github.com/youchainhq/go-youchain/rlp"
	"github.com/youchainhq/go-youchain/logging"
	"github.com/youchainhq/go-youchain/params"
	"github.com/youchainhq/go-youchain/youdb"
	"verif/harness/vf"
)

type Op struct {
	T     string `json:"t"` // ctx vote exist restart crash
	Kind  int    `json:"k,omitempty"` // 0 prevote 1 precommit 2 next 3 cert
	Round uint64 `json:"r"`
	Idx   uint32 `json:"i"`
}
type History struct {
	Ops     []Op   `json:"ops"`
	Comment string `json:"comment,omitempty"`
}

var kinds = []ucon.VoteType{ucon.Prevote, ucon.Precommit, ucon.NextIndex, ucon.Certificate}
var kindCoq = []string{"Prevote", "Precommit", "NextIndex", "Certificate"}

var key, _ = crypto.HexToECDSA("b71c71a67e1177ad4e901695e1b4b9ee17ae16c6668d313eac2f96dbcda3f291")

type emission struct {
	Kind  int
	Round uint64
	Idx   uint32
}

// runImpl executes a history on the implementation; returns per-op codes and emissions.
func runImpl(h History) ([]int, []emission) {
	db := youdb.NewMemDatabase()
	v := ucon.NewVoteDB(db, key)
	var obs []int
	var em []emission
	for _, o := range h.Ops {
		r := new(big.Int).SetUint64(o.Round)
		switch o.T {
		case "ctx":
			v.UpdateContext(r, o.Idx)
			obs = append(obs, 0)
		case "vote":
			if err := v.UpdateVoteData(kinds[o.Kind], r, o.Idx); err == nil {
				obs = append(obs, 1)
				em = append(em, emission{o.Kind, o.Round, o.Idx})
			} else {
				obs = append(obs, 2)
			}
		case "exist":
			if v.ExistVoteData(kinds[o.Kind], r, o.Idx) {
				obs = append(obs, 1)
			} else {
				obs = append(obs, 2)
			}
		case "restart":
			v = ucon.NewVoteDB(db, key)
			obs = append(obs, 0)
		case "crash":
			// killed right after db.Put inside UpdateVoteData: the record is on
			// disk, nothing was gossiped, volatile state is gone.
			_ = v.UpdateVoteData(kinds[o.Kind], r, o.Idx)
			v = ucon.NewVoteDB(db, key)
			obs = append(obs, 0)
		}
	}
	return obs, em
}

func oracle(em []emission) string {
	cnt := map[emission]int{}
	for _, e := range em {
		cnt[e]++
		lim := 1
		if e.Kind == 2 {
			lim = 2
		}
		if cnt[e] > lim {
			return fmt.Sprintf("%d %s votes emitted for round %d index %d", cnt[e], kindCoq[e.Kind], e.Round, e.Idx)
		}
	}
	return ""
}

func opCoq(o Op) string {
	switch o.T {
	case "ctx":
		return fmt.Sprintf("Ctx %d %d", o.Round, o.Idx)
	case "vote":
		return fmt.Sprintf("Vote %s %d %d", kindCoq[o.Kind], o.Round, o.Idx)
	case "exist":
		return fmt.Sprintf("Exist %s %d %d", kindCoq[o.Kind], o.Round, o.Idx)
	case "restart":
		return "Restart"
	default:
		return fmt.Sprintf("CrashInVote %s %d %d", kindCoq[o.Kind], o.Round, o.Idx)
	}
}

// startRound: mostly small rounds; a third of the histories start a few rounds
// below a byte-width boundary of the round number (255/256, 65535/65536, ...),
// so that advancing the round crosses it: the persisted position is
// round.Bytes() || index, a variable-length encoding.
func startRound(r *vf.Rng, small int) uint64 {
	if r.Chance(33) {
		bases := []uint64{1 << 8, 1 << 16, 1 << 24, 1 << 32, 1 << 40, 1 << 56}
		b := bases[r.Intn(len(bases))]
		return b - uint64(1+r.Intn(3))
	}
	return uint64(1 + r.Intn(small))
}

func genHistory(r *vf.Rng) History {
	n := 3 + r.Heavy(160)
	round := startRound(r, 50)
	idx := uint32(1)
	var ops []Op
	ctxR, ctxI := round, idx
	boundary := r.Chance(5)
	if boundary {
		idx = 4294967290
		ctxI = idx
	}
	for len(ops) < n {
		c := r.Intn(100)
		switch {
		case c < 18: // context moves: mostly forward, sometimes back (restart re-enters at index 1)
			switch r.Intn(10) {
			case 0, 1, 2, 3:
				ctxI++
			case 4, 5:
				ctxR++
				ctxI = 1
			case 6:
				ctxI = 1
			case 7:
				if ctxI > 1 {
					ctxI--
				}
			case 8:
				if ctxR > 1 && r.Chance(50) {
					ctxR--
				}
			case 9:
				ctxI += uint32(r.Intn(4))
			}
			ops = append(ops, Op{T: "ctx", Round: ctxR, Idx: ctxI})
		case c < 70:
			k := r.Intn(4)
			rr, ii := ctxR, ctxI
			if r.Chance(12) { // attempt away from the context
				rr = uint64(int64(rr) + int64(r.Intn(3)) - 1)
				ii = uint32(int64(ii) + int64(r.Intn(3)) - 1)
			}
			ops = append(ops, Op{T: "vote", Kind: k, Round: rr, Idx: ii})
		case c < 80:
			ops = append(ops, Op{T: "exist", Kind: r.Intn(4), Round: ctxR, Idx: uint32(int64(ctxI) + int64(r.Intn(3)) - 1)})
		case c < 92:
			ops = append(ops, Op{T: "restart"})
			if r.Chance(70) { // the server re-enters the round at index 1
				ctxI = 1
				ops = append(ops, Op{T: "ctx", Round: ctxR, Idx: ctxI})
			}
		default:
			ops = append(ops, Op{T: "crash", Kind: r.Intn(4), Round: ctxR, Idx: ctxI})
		}
	}
	return History{Ops: ops}
}

func loadCorpus(dir string) []History {
	var out []History
	files, _ := filepath.Glob(filepath.Join(dir, "*.json"))
	sort.Strings(files)
	for _, f := range files {
		b, err := ioutil.ReadFile(f)
		if err != nil {
			continue
		}
		var h History
		if json.Unmarshal(b, &h) == nil && len(h.Ops) > 0 {
			h.Comment = "corpus:" + filepath.Base(f)
			out = append(out, h)
		}
	}
	return out
}

// ---- voter level --------------------------------------------------------
// The theorem is about the vote database gate.  That every vote a Voter
// gossips has passed the gate (a completed database write of the same kind,
// round and index precedes it) is checked here on the real Voter, including
// kills at and right after the database write.

type VOp struct {
	T    string `json:"t"` // ctx judge restart killput killafter
	R    uint64 `json:"r"`
	I    uint32 `json:"i"`
	Step uint32 `json:"step,omitempty"`
	Cert bool   `json:"cert,omitempty"`
	Kind int    `json:"k,omitempty"`
	Hash byte   `json:"h,omitempty"` // block the environment favours (best proposal / quorum block)
}

type killed struct{}

type killDB struct {
	youdb.Database
	mode string // "", "at", "after"
	puts []emission
}

func (d *killDB) Put(key, value []byte) error {
	isVote := len(key) == 23 && key[0] == 'v'
	if isVote && d.mode == "at" {
		d.mode = ""
		panic(killed{})
	}
	err := d.Database.Put(key, value)
	if isVote && err == nil {
		var it ucon.VoteItem
		if rlp.DecodeBytes(value, &it) == nil {
			d.puts = append(d.puts, emission{kindIndex(it.VoteType), it.Round.Uint64(), it.RoundIndex})
		}
		if d.mode == "after" {
			d.mode = ""
			panic(killed{})
		}
	}
	return err
}

func kindIndex(t ucon.VoteType) int {
	for i, k := range kinds {
		if k == t {
			return i
		}
	}
	return -1
}

type pmgr struct{ db youdb.Database }

func (f *pmgr) CurrentCaravelParams() *params.CaravelParams {
	yp := params.Versions[params.YouCurrentVersion]
	yp.EnableBls = false
	return &yp.CaravelParams
}
func (f *pmgr) CertificateParams(round *big.Int) (*params.CaravelParams, error) {
	return f.CurrentCaravelParams(), nil
}
func (f *pmgr) GetLookBackVldReader(cp *params.CaravelParams, num *big.Int, lbType params.LookBackType) (state.ValidatorReader, error) {
	return state.New(common.Hash{}, common.Hash{}, common.Hash{}, state.NewDatabase(f.db))
}
func (f *pmgr) CurrentYouParams() *params.YouParams {
	yp := params.Versions[params.YouCurrentVersion]
	return &yp
}

type wire struct {
	lock sync.Mutex
	sent []emission
	hashes []common.Hash
}

func newVoter(db youdb.Database, mux *event.TypeMux, best *common.Hash) *ucon.Voter {
	blsSk, _ := bls.NewBlsManager().GenerateKey()
	isVal := func(round *big.Int, roundIndex uint32, step uint32, lb params.LookBackType) (bool, *ucon.StepView) {
		return true, &ucon.StepView{SeedValue: common.Hash{1}, SortitionProof: []byte{1}, Priority: common.Hash{1},
			SubUsers: 1, Threshold: 1000, ValidatorType: params.KindChamber}
	}
	maxPrio := func(round *big.Int, roundIndex uint32) (common.Hash, common.Hash, bool) {
		return common.Hash{1}, *best, true
	}
	inCache := func(h common.Hash, p common.Hash) *types.Block { return nil }
	verify := func(pk *ecdsa.PublicKey, d *ucon.SortitionData, lb params.LookBackType) error { return nil }
	stake := func(round *big.Int, addr common.Address, isProposer bool, lb params.LookBackType) (*big.Int, *big.Int, uint64, params.ValidatorKind, uint8, error) {
		return big.NewInt(1), big.NewInt(1), 1000, params.KindChamber, 0, nil
	}
	count := func(round *big.Int, kind params.ValidatorKind, lb params.LookBackType) uint64 { return 10 }
	pm := &pmgr{db: youdb.NewMemDatabase()}
	v := ucon.NewVoter(db, key, blsSk, mux, verify, isVal, maxPrio, inCache, stake, count, pm)
	v.SetLookBackMgr(pm)
	return v
}

func guarded(fn func()) (wasKilled bool) {
	defer func() {
		if r := recover(); r != nil {
			if _, ok := r.(killed); !ok {
				panic(r)
			}
			wasKilled = true
		}
	}()
	fn()
	return false
}

// runVoter executes a voter-level history; returns what left the node and what was persisted.
func runVoter(ops []VOp) (sent []emission, hashes []common.Hash, puts []emission) {
	mux := new(event.TypeMux)
	w := &wire{}
	sub := mux.Subscribe(ucon.SendMessageEvent{})
	done := make(chan struct{})
	go func() {
		for obj := range sub.Chan() {
			if obj == nil {
				break
			}
			ev := obj.Data.(ucon.SendMessageEvent)
			var msg ucon.BlockHashWithVotes
			if rlp.DecodeBytes(ev.Payload, &msg) != nil {
				continue
			}
			w.lock.Lock()
			w.sent = append(w.sent, emission{kindIndex(ucon.MsgCodeToVoteType(ev.Code)), msg.Round.Uint64(), msg.RoundIndex})
			w.hashes = append(w.hashes, msg.BlockHash)
			w.lock.Unlock()
		}
		close(done)
	}()
	db := &killDB{Database: youdb.NewMemDatabase()}
	best := common.Hash{0xa0}
	v := newVoter(db, mux, &best)
	for _, o := range ops {
		best = common.Hash{o.Hash}
		run := func() {
			switch o.T {
			case "ctx":
				v.VerifUpdateContext(ucon.ContextChangeEvent{Round: new(big.Int).SetUint64(o.R), RoundIndex: o.I, Step: o.Step, Certificate: o.Cert})
			case "judge":
				v.VerifJudge(kinds[o.Kind], 1000, 1000, best, common.Hash{1}, params.KindChamber)
			}
		}
		switch o.T {
		case "restart":
			v = newVoter(db, mux, &best)
		case "killput", "killafter":
			db.mode = "at"
			if o.T == "killafter" {
				db.mode = "after"
			}
			// the op that is interrupted is a context change into the prevote step or a quorum report
			inner := o
			if o.Kind == 0 {
				inner.T = "ctx"
			} else {
				inner.T = "judge"
				inner.Kind = o.Kind - 1
			}
			o2 := inner
			wasKilled := guarded(func() {
				switch o2.T {
				case "ctx":
					v.VerifUpdateContext(ucon.ContextChangeEvent{Round: new(big.Int).SetUint64(o2.R), RoundIndex: o2.I, Step: o2.Step, Certificate: o2.Cert})
				case "judge":
					v.VerifJudge(kinds[o2.Kind], 1000, 1000, best, common.Hash{1}, params.KindChamber)
				}
			})
			db.mode = ""
			if wasKilled {
				v = newVoter(db, mux, &best)
			}
		default:
			run()
		}
	}
	// let the AsyncPost goroutines deliver: wait until the count is stable
	last, stable := -1, 0
	for i := 0; i < 400 && stable < 4; i++ {
		time.Sleep(500 * time.Microsecond)
		w.lock.Lock()
		n := len(w.sent)
		w.lock.Unlock()
		if n == last {
			stable++
		} else {
			stable, last = 0, n
		}
	}
	mux.Stop()
	<-done
	return w.sent, w.hashes, db.puts
}

func genVoterHistory(r *vf.Rng) []VOp {
	n := 4 + r.Heavy(60)
	round, idx := startRound(r, 30), uint32(1)
	cert := r.Chance(30)
	var ops []VOp
	steps := []uint32{ucon.UConStepProposal, ucon.UConStepPrevote, ucon.UConStepPrecommit, ucon.UConStepCertificate}
	ops = append(ops, VOp{T: "ctx", R: round, I: idx, Step: steps[r.Intn(2)], Cert: cert, Hash: 0xa0})
	for len(ops) < n {
		h := byte(0xa0 + r.Intn(3))
		c := r.Intn(100)
		switch {
		case c < 35:
			if r.Chance(25) {
				idx++
			} else if r.Chance(8) {
				round++
				idx = 1
				cert = r.Chance(30)
			}
			ops = append(ops, VOp{T: "ctx", R: round, I: idx, Step: steps[r.Intn(4)], Cert: cert, Hash: h})
		case c < 65:
			ops = append(ops, VOp{T: "judge", R: round, I: idx, Kind: r.Intn(4), Hash: h})
		case c < 78:
			ops = append(ops, VOp{T: "restart"})
			idx = 1
			ops = append(ops, VOp{T: "ctx", R: round, I: idx, Step: steps[r.Intn(2)], Cert: cert, Hash: h})
		default:
			t := "killput"
			if r.Bool() {
				t = "killafter"
			}
			k := r.Intn(3) // 0: ctx into prevote step, 1: prevote quorum, 2: precommit quorum
			ops = append(ops, VOp{T: t, R: round, I: idx, Step: ucon.UConStepPrevote, Cert: cert, Kind: k, Hash: h})
			// after a kill the server re-enters the round (usually at index 1)
			if r.Chance(70) {
				idx = 1
			}
			ops = append(ops, VOp{T: "ctx", R: round, I: idx, Step: steps[r.Intn(2)], Cert: cert, Hash: byte(0xa0 + r.Intn(3))})
		}
	}
	return ops
}

type vhit struct {
	What string `json:"what"`
	VOps []VOp  `json:"vops"`
}

// voterOracle: (a) the property itself on what left the node, (b) every vote
// that left the node has a completed database write of the same kind/round/index.
func voterOracle(sent []emission, hashes []common.Hash, puts []emission) string {
	if what := oracle(sent); what != "" {
		return "voter: " + what
	}
	avail := map[emission]int{}
	for _, p := range puts {
		avail[p]++
	}
	for _, e := range sent {
		if avail[e] == 0 {
			return fmt.Sprintf("voter: a %s vote for round %d index %d was gossiped without a completed database record", kindCoq[e.Kind], e.Round, e.Idx)
		}
		avail[e]--
	}
	return ""
}

type hit struct {
	What    string  `json:"what"`
	History History `json:"history"`
}

func gen(seed uint64, n int, outDir, corpusDir string) {
	r := vf.NewRng(seed)
	res := vf.NewResult("C02", seed)
	hs := loadCorpus(corpusDir)
	res.Distribution["corpus"] = len(hs)
	for len(hs) < n {
		hs = append(hs, genHistory(r))
	}
	var sb strings.Builder
	sb.WriteString("From VF.C02 Require Import Model.\nLocal Open Scope N_scope.\nDefinition cases : list case := [\n")
	distinct := map[string]bool{}
	for i, h := range hs {
		obs, em := runImpl(h)
		if what := oracle(em); what != "" {
			res.OracleHits = append(res.OracleHits, hit{what, h})
		}
		var ops, os []string
		restarts, refused := 0, 0
		for j, o := range h.Ops {
			ops = append(ops, opCoq(o))
			os = append(os, fmt.Sprint(obs[j]))
			res.Count("op_" + o.T)
			if o.T == "vote" {
				if obs[j] == 1 {
					res.Count("vote_emitted")
				} else {
					res.Count("vote_refused")
					refused++
				}
			}
			if o.T == "restart" || o.T == "crash" {
				restarts++
			}
		}
		if i > 0 {
			sb.WriteString(";\n")
		}
		line := "mkCase " + vf.List(ops) + " " + vf.List(os)
		sb.WriteString(line)
		if restarts > 0 && refused > 0 {
			distinct[line] = true
		}
		if len(res.Samples) < 3 {
			res.Samples = append(res.Samples, h)
		}
		res.CaseDescs = append(res.CaseDescs, h)
	}
	// voter-level campaign (oracle + gate assumption; no model comparison)
	nv := n / 3
	for i := 0; i < nv; i++ {
		vops := genVoterHistory(r)
		sent, hashes, puts := runVoter(vops)
		res.Distribution["voter_histories"]++
		res.Distribution["voter_votes_gossiped"] += len(sent)
		res.Distribution["voter_records_written"] += len(puts)
		for _, o := range vops {
			res.Count("vop_" + o.T)
		}
		if what := voterOracle(sent, hashes, puts); what != "" {
			res.OracleHits = append(res.OracleHits, vhit{what, vops})
		}
	}
	sb.WriteString("].\nDefinition M := Eval vm_compute in mismatches cases.\nPrint M.\n")
	vf.WriteFile(filepath.Join(outDir, "Cases.v"), sb.String())
	res.Cases = len(hs)
	res.Distinct = len(distinct)
	res.Rule = "random histories (3-160 ops, heavy-tailed) over the real VoteDB on a memory database: context changes (forward, back to index 1, lower round), vote attempts of the 4 kinds at the context or next to it, ExistVoteData probes, restarts (NewVoteDB on the same database, usually followed by re-entering the round at index 1) and crashes right after db.Put; observables per op = nil/error and the boolean; non-trivial = contains a restart/crash and at least one refused vote; distinct by full history"
	res.Write(filepath.Join(outDir, "result.json"))
}

func replay(file string) {
	b, err := ioutil.ReadFile(file)
	if err != nil {
		fmt.Println(err)
		os.Exit(2)
	}
	var rp struct {
		History *History `json:"history"`
		Ops     []Op     `json:"ops"`
		VOps    []VOp    `json:"vops"`
	}
	if err := json.Unmarshal(b, &rp); err != nil {
		fmt.Println(err)
		os.Exit(2)
	}
	if len(rp.VOps) > 0 {
		sent, hashes, puts := runVoter(rp.VOps)
		fmt.Println("gossiped:", sent, "records:", puts)
		if what := voterOracle(sent, hashes, puts); what != "" {
			fmt.Println("ORACLE VIOLATION:", what)
			os.Exit(1)
		}
		fmt.Println("property holds on this voter history")
		return
	}
	h := History{Ops: rp.Ops}
	if rp.History != nil {
		h = *rp.History
	}
	obs, em := runImpl(h)
	fmt.Println("per-op results:", obs)
	if what := oracle(em); what != "" {
		fmt.Println("ORACLE VIOLATION:", what)
		os.Exit(1)
	}
	fmt.Println("property holds on this history")
}

func main() {
	mode := ""
	if len(os.Args) > 1 {
		mode = os.Args[1]
		os.Args = append(os.Args[:1], os.Args[2:]...)
	}
	seed := flag.Uint64("seed", 1, "")
	n := flag.Int("n", 300, "")
	out := flag.String("out", ".", "")
	corpus := flag.String("corpus", "/verif/corpus/C02", "")
	file := flag.String("file", "", "")
	flag.Parse()
	params.InitNetworkId(params.NetworkIdForTestCase)
	logging.Root().SetHandler(logging.DiscardHandler())
	switch mode {
	case "gen":
		gen(*seed, *n, *out, *corpus)
	case "replay":
		replay(*file)
	default:
		fmt.Println("usage: c02 gen|replay")
		os.Exit(2)
	}
}
