package main

// "life" runs: one protocol-following validator process over a whole life with
// restarts and crashes.  A real Voter on a real VoteDB (one key-value store
// kept across restarts) is driven through context changes (steps of several
// positions, re-entry into the same position with another best proposal),
// quorum reports, restarts and kill points inside the vote-database write.
// Every vote that leaves the node is collected.  The oracle then states the
// property on the implementation: the votes of one kind at one (round, index)
// never name two blocks (two next-index votes are the protocol's own
// allowance), and every pair of them that could be packed into an
// EvidenceDoubleSignV5 is handed to the real builder / validator evidence path
// on the same world: if the validator is penalised the hit is "evidence
// against a validator that followed the protocol is accepted".

import (
	"bytes"
	"fmt"
	"math/big"
	"sort"
	"sync/atomic"

	"github.com/youchainhq/go-youchain/common"
	"github.com/youchainhq/go-youchain/consensus/ucon"
	"github.com/youchainhq/go-youchain/params"
	"github.com/youchainhq/go-youchain/rlp"
	"github.com/youchainhq/go-youchain/youdb"
	"verif/harness/vf"
)

// LifeOp is one step of a life.  Op: "ctx" (ContextChangeEvent for the current
// position at Step 1 prevote / 2 precommit / 3 certificate, Best = the block
// getMaxPriorityFn favours from now on), "quorum" (a counted quorum of Kind
// votes for Hash is reported), "restart" (the process restarts: NewVoter over
// the same database), "kill" (the next vote-database write crashes the process
// before ("at") or after ("after") the record is stored), "move" (next index),
// "round" (the next round, index 1).
type LifeOp struct {
	Op   string `json:"op"`
	Step int    `json:"step,omitempty"`
	Best int    `json:"best,omitempty"`
	Kind int    `json:"kind,omitempty"`
	Hash int    `json:"hash,omitempty"`
	Kill string `json:"kill,omitempty"`
}
type LifeRun struct {
	Key  int      `json:"key"`
	Cert bool     `json:"cert"`
	Ops  []LifeOp `json:"ops"`
}

type killed struct{}

// killDB crashes the process inside a vote-record write.
type killDB struct {
	youdb.Database
	mode string
}

func (d *killDB) Put(key, value []byte) error {
	isVote := len(key) == 23 && key[0] == 'v'
	if isVote && d.mode == "at" {
		d.mode = ""
		panic(killed{})
	}
	err := d.Database.Put(key, value)
	if isVote && err == nil && d.mode == "after" {
		d.mode = ""
		panic(killed{})
	}
	return err
}

func stepOf(s int) uint32 {
	switch s {
	case 2:
		return ucon.UConStepPrecommit
	case 3:
		return ucon.UConStepCertificate
	}
	return ucon.UConStepPrevote
}

func observeLife(c *Case) {
	lr := c.LRun
	w := buildWorld(c)
	ro := &c.Obs.RunObs
	ro.Confirmed, ro.Pending, ro.Affected, ro.Logs = []int{}, []int{}, []int{}, []Log{}
	c.Obs.Emitted = []Emitted{}
	db := &killDB{Database: youdb.NewMemDatabase()}
	best := hashOf(1)
	var v *ucon.Voter
	var col *collector
	life := 0
	var mark int64
	harvest := func() {
		if col == nil {
			return
		}
		col.waitFor(atomic.LoadInt64(&selfVotes)-mark, 0)
		col.lock.Lock()
		defer col.lock.Unlock()
		var got []Emitted
		for _, ev := range col.sent {
			var msg ucon.BlockHashWithVotes
			if err := rlp.DecodeBytes(ev.Payload, &msg); err != nil || msg.Vote == nil {
				continue
			}
			hid := hashID(msg.BlockHash, 0, 1, 2, 3, 4, 5, 6)
			ideal := key(lr.Key).blsSk.Sign(payload(msg.BlockHash, msg.Round.Uint64(), msg.RoundIndex)).Compress()
			got = append(got, Emitted{Kind: int(ucon.MsgCodeToVoteType(ev.Code)), Hash: hid, Idx: msg.Vote.VoterIdx,
				SigOK: bytes.Equal(ideal[:], msg.Vote.Signature), Round: msg.Round.Uint64(), Index: msg.RoundIndex, Life: life})
		}
		sort.SliceStable(got, func(i, j int) bool { // the mux delivers asynchronously: canonical order inside one life
			a, b := got[i], got[j]
			if a.Round != b.Round {
				return a.Round < b.Round
			}
			if a.Index != b.Index {
				return a.Index < b.Index
			}
			if a.Kind != b.Kind {
				return a.Kind < b.Kind
			}
			return a.Hash < b.Hash
		})
		c.Obs.Emitted = append(c.Obs.Emitted, got...)
	}
	entered := false // a fresh process has no position until its first context change: no vote can be counted before
	start := func() {
		harvest()
		entered = false
		life++
		mark = atomic.LoadInt64(&selfVotes)
		v, col = newVoterOn(w, lr.Key, db, &best)
	}
	round, idx := c.Parent, uint32(1)
	guard(ro, func() {
		start()
		for _, op := range lr.Ops {
			crashed := func() (k bool) {
				defer func() {
					if r := recover(); r != nil {
						if _, ok := r.(killed); !ok {
							panic(r)
						}
						k = true
					}
				}()
				switch op.Op {
				case "move":
					idx++
				case "round":
					if lookbackResolves(c, round+1, lr.Cert) {
						round, idx = round+1, 1
					}
				case "kill":
					db.mode = op.Kill
				case "restart":
					db.mode = ""
					start()
				case "ctx":
					entered = true
					best = hashOf(op.Best)
					ucon.VerifC05UpdateContext(v, ucon.ContextChangeEvent{Round: new(big.Int).SetUint64(round), RoundIndex: idx,
						Step: stepOf(op.Step), Certificate: lr.Cert})
				case "quorum":
					if !entered {
						return false
					}
					ucon.VerifC05Judge(v, ucon.VoteType(op.Kind), 1000, 1000, hashOf(op.Hash), common.Hash{1}, params.KindChamber)
				}
				return false
			}()
			if crashed { // the process died inside the write: it comes up again on the same store
				start()
			}
		}
		harvest()
	})
}

func genLifeRun(r *vf.Rng, c *Case) *Case {
	cert := r.Chance(35)
	if !lookbackResolves(c, c.Parent, cert) {
		return nil
	}
	set := expectedSetOf(c, &Ev{Round: c.Parent, VType: 2})
	var ks []int
	for _, v := range set {
		if !v.BadMain && v.Bls == v.Key {
			ks = append(ks, v.Key)
		}
	}
	if len(ks) == 0 {
		return nil
	}
	lc := *c
	lc.Mode, lc.Evs, lc.Obs, lc.VRun, lc.DRun = "life", nil, Obs{}, nil, nil
	lr := &LifeRun{Key: ks[r.Intn(len(ks))], Cert: cert}
	h := func() int { return 1 + r.Intn(5) }
	lr.Ops = append(lr.Ops, LifeOp{Op: "ctx", Step: 1, Best: h()})
	n := 4 + r.Heavy(24)
	for i := 0; i < n; i++ {
		switch x := r.Intn(100); {
		case x < 26:
			lr.Ops = append(lr.Ops, LifeOp{Op: "ctx", Step: 1, Best: h()}) // (re-)entry at the prevote step, maybe another best block
		case x < 44:
			lr.Ops = append(lr.Ops, LifeOp{Op: "ctx", Step: 2, Best: h()})
		case x < 50:
			lr.Ops = append(lr.Ops, LifeOp{Op: "ctx", Step: 3, Best: h()})
		case x < 66:
			lr.Ops = append(lr.Ops, LifeOp{Op: "quorum", Kind: int(r.Pick([]uint64{2, 2, 2, 3})), Hash: h()})
		case x < 84:
			lr.Ops = append(lr.Ops, LifeOp{Op: "restart"})
			if r.Chance(70) { // come back into the position that was left
				lr.Ops = append(lr.Ops, LifeOp{Op: "ctx", Step: int(r.Pick([]uint64{1, 1, 1, 2, 3})), Best: h()})
			}
		case x < 91:
			lr.Ops = append(lr.Ops, LifeOp{Op: "kill", Kill: []string{"at", "after"}[r.Intn(2)]})
		case x < 98:
			lr.Ops = append(lr.Ops, LifeOp{Op: "move"}, LifeOp{Op: "ctx", Step: 1, Best: h()})
		default:
			lr.Ops = append(lr.Ops, LifeOp{Op: "round"}, LifeOp{Op: "ctx", Step: 1, Best: h()})
		}
	}
	lc.LRun = lr
	observe(&lc)
	lc.observed = true
	return &lc
}

type posKey struct {
	kind  int
	round uint64
	index uint32
}

// oracleLife: the votes one protocol-following process sends over its whole life.
func oracleLife(c *Case) []Hit {
	var hits []Hit
	hit := func(what, detail string) { hits = append(hits, Hit{What: what, Detail: detail, Case: *c}) }
	if c.Obs.Panic != "" {
		hit("panic", c.Obs.Panic)
		return hits
	}
	per := map[posKey][]Emitted{}
	for _, e := range c.Obs.Emitted {
		if !e.SigOK {
			hit("honest-vote-signature-differs", fmt.Sprintf("vote kind %d at (%d,%d): the signature is not the key's signature over hash||round||index", e.Kind, e.Round, e.Index))
		}
		set := expectedSetOf(c, &Ev{Round: e.Round, VType: uint8(e.Kind)})
		if want := indexIn(set, c.LRun.Key); want < 0 || uint32(want) != e.Idx {
			hit("honest-voter-index-differs", fmt.Sprintf("vote kind %d at (%d,%d) carries voter index %d, the look-back set has the validator at %d", e.Kind, e.Round, e.Index, e.Idx, want))
		}
		k := posKey{e.Kind, e.Round, e.Index}
		per[k] = append(per[k], e)
	}
	var keys []posKey
	for k := range per {
		keys = append(keys, k)
	}
	sort.Slice(keys, func(i, j int) bool {
		a, b := keys[i], keys[j]
		if a.round != b.round {
			return a.round < b.round
		}
		if a.index != b.index {
			return a.index < b.index
		}
		return a.kind < b.kind
	})
	for _, k := range keys {
		limit := 1
		if k.kind == 4 {
			limit = 2
		}
		if es := per[k]; len(es) > limit {
			hit("honest-voter-double-vote", fmt.Sprintf("a protocol-following validator sent %d votes of kind %d at (%d,%d) over its life (hashes %d and %d, lives %d and %d)",
				len(es), k.kind, k.round, k.index, es[0].Hash, es[len(es)-1].Hash, es[0].Life, es[len(es)-1].Life))
		}
	}
	return hits
}

// evidencesOfLife: every pair of votes of one kind and position with different
// blocks that the life sent at the parent round, as the evidence a peer's
// detector (or anybody who saw both) would submit; each becomes a builder case
// on the same world with the validator marked as protocol-following.
func evidencesOfLife(lc *Case) []Case {
	var out []Case
	es := lc.Obs.Emitted
	for i := range es {
		for j := i + 1; j < len(es); j++ {
			a, b := es[i], es[j]
			if a.Kind != b.Kind || a.Round != b.Round || a.Index != b.Index || a.Hash == b.Hash || a.Hash < 0 || b.Hash < 0 ||
				!a.SigOK || !b.SigOK || a.Round != lc.Parent {
				continue
			}
			bc := *lc
			bc.Mode, bc.LRun, bc.Obs, bc.observed = "build", nil, Obs{}, false
			bc.Honest = []int{lc.LRun.Key}
			bc.FromLife = lc.LRun
			bc.Note = fmt.Sprintf("the two kind-%d votes a protocol-following validator sent at (%d,%d) in lives %d and %d", a.Kind, a.Round, a.Index, a.Life, b.Life)
			bc.Evs = []Ev{{Kind: "ds", Round: a.Round, RIndex: a.Index, Idx: a.Idx, VType: uint8(a.Kind),
				Signs: []Sign{sg(lc.LRun.Key, a.Hash, a.Round, a.Index, a.Kind), sg(lc.LRun.Key, b.Hash, b.Round, b.Index, b.Kind)}}}
			if len(out) < 4 {
				out = append(out, bc)
				rc := bc
				rc.Mode, rc.SD = "replay", "list" // and through the validator's path
				out = append(out, rc)
			}
		}
	}
	return out
}

// signsOfLife: the votes of the life at the parent round, per index, for the evidence generator.
func signsOfLife(lc *Case) map[string][]Sign {
	out := map[string][]Sign{}
	for _, e := range lc.Obs.Emitted {
		if e.SigOK && e.Hash >= 0 && e.Round == lc.Parent {
			k := fmt.Sprintf("%d/%d", lc.LRun.Key, e.Index)
			out[k] = append(out[k], sg(lc.LRun.Key, e.Hash, e.Round, e.Index, e.Kind))
		}
	}
	return out
}

// votesCoq: the life's votes for the model comparison (kind, round, index, hash).
func votesCoq(c *Case) string {
	var xs []string
	for _, e := range c.Obs.Emitted {
		h := e.Hash
		if h < 0 {
			h = 900
		}
		xs = append(xs, fmt.Sprintf("(%s, %s, %s, %s)", nI(e.Kind), nN(e.Round), nN(uint64(e.Index)), nI(h)))
	}
	return vf.List(xs)
}

// stillSent re-runs the life a pair evidence came from on the tree under test
// and reports whether the protocol-following validator really sends every
// vote the evidence lists (a replay on another tree must not blame the
// evidence path for votes that tree's voter never sends).
func stillSent(c *Case) bool {
	if c.FromLife == nil {
		return true
	}
	lc := *c
	lc.Mode, lc.LRun, lc.Evs, lc.Obs, lc.Honest, lc.FromLife = "life", c.FromLife, nil, Obs{}, nil, nil
	observeLife(&lc)
	for _, e := range c.Evs {
		for _, s := range e.Signs {
			found := false
			for _, m := range lc.Obs.Emitted {
				if m.SigOK && m.Kind == s.Kind && m.Hash == s.Hash && m.Round == s.SRound && m.Index == s.SIndex {
					found = true
				}
			}
			if !found {
				return false
			}
		}
	}
	return true
}
