package main

import (
	"encoding/hex"
	"encoding/json"
	"fmt"
	"math/big"
	"sort"
	"strings"

	"github.com/youchainhq/go-youchain/consensus/ucon"
	"github.com/youchainhq/go-youchain/params"
	"github.com/youchainhq/go-youchain/staking"
	"verif/harness/vf"
)

// ---- fixes present in the working tree ---------------------------------------

type Fixes struct{ Distinct, Zero bool }

func baseWorld() Case {
	return Case{
		Cfg:     Cfg{Fraction: 2, Expel: 100, MaxExpired: 120, StakeLB: 16},
		Sets:    [][]LbVal{{{Key: 0, Bls: 0, Stake: 10}, {Key: 1, Bls: 1, Stake: 5}}},
		Headers: []Hdr{{Num: 42, Set: 0}, {Num: 34, Set: 0}},
		Parent:  50, HNum: 51,
		Vals: []CurVal{
			{Key: 0, Status: 1, Token: "10000000000000000000", Stake: "10", SelfToken: "10000000000000000000", SelfStake: "10", Dlgs: []Dlg{}},
			{Key: 1, Status: 1, Token: "5000000000000000000", Stake: "5", SelfToken: "5000000000000000000", SelfStake: "5", Dlgs: []Dlg{}},
		},
		Queue: []WRec{},
		Mode:  "build",
	}
}

func sg(by, hash int, round uint64, idx uint32, kind int) Sign {
	return Sign{Hash: hash, By: by, SHash: hash, SRound: round, SIndex: idx, Kind: kind}
}

func probeFixes() Fixes {
	var fx Fixes
	c := baseWorld()
	c.Evs = []Ev{{Kind: "ds", Round: 50, RIndex: 1, Idx: 0, VType: 2, Signs: []Sign{sg(0, 7, 50, 1, 2), sg(0, 7, 50, 1, 2)}}}
	observe(&c)
	fx.Distinct = len(c.Obs.Confirmed) == 0 && c.Obs.State.Vals[0].Status == 1
	z := baseWorld()
	z.Cfg.Fraction = 0
	z.Evs = []Ev{{Kind: "ds", Round: 50, RIndex: 1, Idx: 0, VType: 2, Signs: []Sign{sg(0, 7, 50, 1, 2), sg(0, 8, 50, 1, 2)}}}
	observe(&z)
	fx.Zero = len(z.Obs.Confirmed) == 1
	return fx
}

// ---- generator -------------------------------------------------------------------

var unit = new(big.Int).Set(params.StakeUint)

func tokenFor(r *vf.Rng, stake uint64) *big.Int {
	t := new(big.Int).Mul(new(big.Int).SetUint64(stake), unit)
	switch r.Intn(5) {
	case 0:
		t.Add(t, big.NewInt(1))
	case 1:
		t.Add(t, new(big.Int).Sub(unit, big.NewInt(1)))
	case 2:
		t.Add(t, new(big.Int).SetUint64(r.U64()%1000000000000000000))
	}
	return t
}

func genLedgerVal(r *vf.Rng, k int) CurVal {
	v := CurVal{Key: k, Status: 1, Dlgs: []Dlg{}}
	if r.Chance(15) {
		v.Status = 0
	}
	if r.Chance(10) {
		v.Expelled = true
		v.Expire = uint64(r.Intn(400))
	}
	selfStake := uint64(1 + r.Heavy(3000))
	if r.Chance(8) {
		selfStake = uint64(r.Intn(3))
	}
	selfTok := tokenFor(r, selfStake)
	if r.Chance(6) { // dust validator: the penalty rounds to zero
		selfStake = 0
		selfTok = big.NewInt(int64(r.Intn(120)))
	}
	tok := new(big.Int).Set(selfTok)
	stake := selfStake
	nd := r.Intn(4)
	if r.Chance(50) {
		nd = 0
	}
	id := 0
	for i := 0; i < nd; i++ {
		id += 1 + r.Intn(3)
		ds := uint64(r.Heavy(2000))
		dt := tokenFor(r, ds)
		if r.Chance(10) {
			ds, dt = 0, big.NewInt(0)
		}
		v.Dlgs = append(v.Dlgs, Dlg{D: id, Stake: fmt.Sprint(ds), Token: dt.String()})
		tok.Add(tok, dt)
		stake += ds
	}
	if r.Chance(8) { // ledger that breaks the C08 invariant
		switch r.Intn(3) {
		case 0:
			stake += uint64(1 + r.Intn(5))
		case 1:
			if stake > 1 {
				stake -= 1
			}
		case 2:
			tok.Add(tok, big.NewInt(int64(r.Intn(1000))))
		}
	}
	v.Token, v.Stake, v.SelfToken, v.SelfStake = tok.String(), fmt.Sprint(stake), selfTok.String(), fmt.Sprint(selfStake)
	v.Risk = uint16(r.Pick([]uint64{0, 0, 0, 1, 2500, 5000, 9999, 10000, 10001, 65535}))
	return v
}

func genQueue(r *vf.Rng, c *Case, nkeys int) {
	n := r.Heavy(10)
	for i := 0; i < n; i++ {
		q := WRec{Val: r.Intn(nkeys)}
		if r.Chance(50) {
			// a delegator of that validator when there is one
			for _, v := range c.Vals {
				if v.Key == q.Val && len(v.Dlgs) > 0 {
					q.D = v.Dlgs[r.Intn(len(v.Dlgs))].D
				}
			}
			if q.D == 0 && r.Chance(30) {
				q.D = 1 + r.Intn(8)
			}
		}
		if r.Chance(25) {
			q.Finished = 1
		}
		var f *big.Int
		switch r.Intn(6) {
		case 0:
			f = big.NewInt(0)
		case 1:
			f = big.NewInt(int64(1 + r.Intn(100)))
		case 2:
			f = new(big.Int).Mul(unit, big.NewInt(int64(1+r.Intn(3000))))
		default:
			f = new(big.Int).SetUint64(r.U64() % 9000000000000000000)
		}
		q.Final = f.String()
		c.Queue = append(c.Queue, q)
	}
}

func lookbackOf(round, cfg uint64) uint64 {
	if round > cfg {
		return round - cfg
	}
	return 0
}

func genWorld(r *vf.Rng) Case {
	c := Case{Queue: []WRec{}, Vals: []CurVal{}}
	c.Cfg.Fraction = r.Pick([]uint64{2, 2, 2, 2, 1, 0, 5, 50, 100, 3, 150})
	c.Cfg.Expel = r.Pick([]uint64{0, 1, 100, 256, 512})
	c.Cfg.MaxExpired = r.Pick([]uint64{0, 1, 5, 120})
	c.Cfg.StakeLB = r.Pick([]uint64{1, 2, 8, 9, 16, 40})
	nkeys := 1 + r.Intn(5)
	nsets := 1 + r.Intn(3)
	for s := 0; s < nsets; s++ {
		var set []LbVal
		m := 1 + r.Intn(nkeys+1)
		for i := 0; i < m; i++ {
			v := LbVal{Key: r.Intn(nkeys), Stake: uint64(1 + r.Intn(4)), Extra: uint64(r.Intn(3))}
			v.Bls = v.Key
			if r.Chance(5) {
				v.Bls = -1
			} else if r.Chance(5) {
				v.Bls = r.Intn(nkeys) // registered somebody else's BLS key
			}
			if r.Chance(3) {
				v.BadMain = true
			}
			set = append(set, v)
		}
		c.Sets = append(c.Sets, set)
	}
	switch r.Intn(6) {
	case 0:
		c.Parent = uint64(r.Intn(12))
	case 1:
		c.Parent = 2*params.ACoCHTFrequency + uint64(r.Intn(60))
	default:
		c.Parent = uint64(10 + r.Intn(300))
	}
	c.HNum = c.Parent + 1
	if r.Chance(12) { // the local head is not the block's parent (side chain, re-execution): must not matter
		h := r.Pick([]uint64{c.Parent + 1, c.Parent + 2, c.Parent + 7, c.Parent - 1, 0, c.Parent + 300})
		if h > c.Parent+1000 {
			h = 0
		}
		c.Head = &h
	}
	// headers: the ones the protocol needs for rounds around the parent, each
	// neighbouring number pointing at another set so that an off-by-one look-back
	// names another validator
	seen := map[uint64]bool{}
	addH := func(n uint64, set int) {
		if seen[n] {
			return
		}
		seen[n] = true
		c.Headers = append(c.Headers, Hdr{Num: n, Set: set})
	}
	for d := int64(-2); d <= 2; d++ {
		rr := int64(c.Parent) + d
		if rr < 0 {
			continue
		}
		round := uint64(rr)
		for _, n := range []uint64{lookbackOf(round, 8), lookbackOf(round, c.Cfg.StakeLB), lookbackOf(round, 2*params.ACoCHTFrequency)} {
			if r.Chance(93) {
				addH(n, r.Intn(nsets))
			}
		}
	}
	for k := 0; k < nkeys; k++ {
		if r.Chance(88) {
			c.Vals = append(c.Vals, genLedgerVal(r, k))
		}
	}
	genQueue(r, &c, nkeys)
	return c
}

// honestVotes simulates what one protocol-following validator signs at one
// (round, index): at most one prevote, one precommit, one certificate vote and
// two next-index votes (the vote database's limits, property C02).
func honestVotes(r *vf.Rng, k int, round uint64, idx uint32) []Sign {
	h1 := 1 + r.Intn(6)
	h2 := h1
	if r.Chance(45) {
		h2 = 1 + r.Intn(6)
	}
	out := []Sign{sg(k, h1, round, idx, 2)}
	if r.Chance(85) {
		out = append(out, sg(k, h2, round, idx, 3))
	}
	if r.Chance(40) {
		out = append(out, sg(k, h2, round, idx, 5))
	}
	if r.Chance(80) {
		out = append(out, sg(k, 0, round, idx, 4))
		if r.Chance(70) {
			out = append(out, sg(k, h2, round, idx, 4))
		}
	} else if r.Chance(50) {
		out = append(out, sg(k, h1, round, idx, 4))
	}
	return out
}

func genEvidence(r *vf.Rng, c *Case) Ev {
	if r.Chance(4) {
		return Ev{Kind: "other"}
	}
	if r.Chance(3) {
		return Ev{Kind: "bad"}
	}
	e := Ev{Kind: "ds", Round: c.Parent, RIndex: uint32(1 + r.Intn(3)), VType: uint8(r.Pick([]uint64{2, 2, 2, 3, 3, 5, 5, 4, 0, 1, 9}))}
	if r.Chance(18) {
		e.Round = r.Pick([]uint64{c.Parent + 1, c.Parent + 7, c.Parent - 1, c.Parent - c.Cfg.MaxExpired, c.Parent - c.Cfg.MaxExpired - 1, 0, c.Parent + 2})
		if e.Round > c.Parent+1000 { // wrapped
			e.Round = 0
		}
	}
	// whom does it name
	cfg := c.Cfg.StakeLB
	if e.VType == 5 {
		cfg = 2 * params.ACoCHTFrequency
	}
	lb := lookbackOf(e.Round, cfg)
	setLen, signerBls := 3, 0
	var set []LbVal
	for _, h := range c.Headers {
		if h.Num == lb && h.Set < len(c.Sets) {
			set = sortedSet(c.Sets[h.Set])
		}
	}
	if len(set) > 0 {
		setLen = len(set)
		e.Idx = uint32(r.Intn(setLen))
		signerBls = set[e.Idx].Bls
		if signerBls < 0 {
			signerBls = set[e.Idx].Key
		}
	}
	k := signerBls
	hv := honestVotes(r, k, e.Round, e.RIndex)
	if e.Round == c.Parent {
		// prefer the votes a real honest run of this validator sent
		var keys []string
		for key := range c.realHV {
			keys = append(keys, key)
		}
		sort.Strings(keys)
		var match []string
		for _, key := range keys {
			var rk int
			var ri uint32
			fmt.Sscanf(key, "%d/%d", &rk, &ri)
			if rk == k && len(c.realHV[key]) > 0 {
				match = append(match, key)
			}
		}
		if len(match) > 0 {
			key := match[r.Intn(len(match))]
			var rk int
			var ri uint32
			fmt.Sscanf(key, "%d/%d", &rk, &ri)
			hv, e.RIndex = c.realHV[key], ri
		}
	}
	pick2 := func(f func(a, b Sign) bool) ([]Sign, bool) {
		for i := range hv {
			for j := range hv {
				if i != j && f(hv[i], hv[j]) {
					return []Sign{hv[i], hv[j]}, true
				}
			}
		}
		return nil, false
	}
	switch r.Intn(15) {
	case 0, 1, 2: // real equivocation: two different votes of one kind
		kind := int(r.Pick([]uint64{2, 2, 3, 5}))
		a := 1 + r.Intn(6)
		b := a + 1 + r.Intn(3)
		e.Signs = []Sign{sg(k, a, e.Round, e.RIndex, kind), sg(k, b, e.Round, e.RIndex, kind)}
		if r.Chance(15) {
			e.Signs = append(e.Signs, sg(k, b+1+r.Intn(2), e.Round, e.RIndex, kind))
		}
		if r.Chance(8) { // plus a repeated pair
			e.Signs = append(e.Signs, e.Signs[0])
		}
	case 3: // one honest signature listed twice (or the same hash voted in two kinds: identical bytes)
		s := hv[r.Intn(len(hv))]
		e.Signs = []Sign{s, s}
		if r.Chance(20) {
			e.Signs = append(e.Signs, s)
		}
	case 4: // honest votes of different kinds
		if ss, ok := pick2(func(a, b Sign) bool { return a.Kind != b.Kind && a.Hash != b.Hash }); ok {
			e.Signs = ss
		} else {
			e.Signs = []Sign{hv[0], hv[len(hv)-1]}
		}
	case 5: // the two honest next-index votes
		if ss, ok := pick2(func(a, b Sign) bool { return a.Kind == 4 && b.Kind == 4 && a.Hash != b.Hash }); ok {
			e.Signs = ss
		} else {
			e.Signs = []Sign{sg(k, 0, e.Round, e.RIndex, 4), sg(k, 3, e.Round, e.RIndex, 4)}
		}
	case 6: // any multiset of honest votes
		n := 2 + r.Intn(3)
		for i := 0; i < n; i++ {
			e.Signs = append(e.Signs, hv[r.Intn(len(hv))])
		}
	case 7, 8: // forged: one good signature and one that is not
		good := sg(k, 1+r.Intn(3), e.Round, e.RIndex, 2)
		bad := sg(k, 4+r.Intn(3), e.Round, e.RIndex, 0)
		switch r.Intn(7) {
		case 0:
			bad.By, bad.Salt = -1, r.Intn(1000)
		case 1:
			bad.By, bad.Salt = -2, r.Intn(1000)
		case 2:
			bad.By = (k + 1) % 6 // signed by somebody else
		case 3:
			bad.SRound = e.Round + 1 // a vote of another round
			bad.Kind = 2
		case 4:
			bad.SIndex = e.RIndex + 1 // a vote of another index
			bad.Kind = 2
		case 5:
			bad.SHash = bad.Hash + 10 // a signature on another hash
			bad.Kind = 2
		case 6:
			bad.SRound = e.Round - 1
			bad.Kind = 2
		}
		e.Signs = []Sign{good, bad}
		if r.Bool() {
			e.Signs = []Sign{bad, good}
		}
		if r.Chance(15) {
			e.Signs = append(e.Signs, sg(k, 8, e.Round, e.RIndex, 2))
		}
	case 9: // too few signatures
		e.Signs = []Sign{}
		if r.Bool() {
			e.Signs = []Sign{sg(k, 1, e.Round, e.RIndex, 2)}
		}
	case 10: // both signatures are by another key than the named validator's
		o := (k + 1 + r.Intn(2)) % 6
		e.Signs = []Sign{sg(o, 1, e.Round, e.RIndex, 2), sg(o, 2, e.Round, e.RIndex, 2)}
	case 11: // wrong or out-of-range index, valid equivocation of key k
		e.Signs = []Sign{sg(k, 1, e.Round, e.RIndex, 2), sg(k, 2, e.Round, e.RIndex, 2)}
		e.Idx = uint32(r.Pick([]uint64{uint64(setLen), uint64(setLen + 1), uint64(e.Idx + 1), 4294967295, 0}))
	case 12, 13, 14: // ONE genuine signature relabelled: the same signature bytes listed under several different hashes
		e.Signs = relabelled(r, hv, k, e.Round, e.RIndex)
	}
	return e
}

// relabelled builds the signs of an evidence in which one genuine signature g
// (an honest-run vote when there is one, else a fresh vote of key k) appears
// under its own hash and, byte-identical, under one or more made-up hashes.
// The genuine entry comes first, last or in the middle; 2 or 3+ entries;
// sometimes a second genuine signature (another hash) is mixed in, which is
// itself relabelled in a share of the cases.
func relabelled(r *vf.Rng, hv []Sign, k int, round uint64, idx uint32) []Sign {
	g := sg(k, 1+r.Intn(6), round, idx, 2)
	if len(hv) > 0 && r.Chance(65) {
		g = hv[r.Intn(len(hv))]
	}
	fake := func(of Sign, h int) Sign { // the signature of `of`, claimed for hash h
		f := of
		f.Hash = h
		f.Kind = 0
		return f
	}
	n := 1
	if r.Chance(40) {
		n = 2 + r.Intn(3)
	}
	var fakes []Sign
	for i := 0; i < n; i++ {
		fakes = append(fakes, fake(g, 20+r.Intn(6)+7*i))
	}
	var out []Sign
	switch r.Intn(3) {
	case 0: // genuine first
		out = append([]Sign{g}, fakes...)
	case 1: // genuine last
		out = append(fakes, g)
	default: // genuine in the middle (or no genuine entry at all when there is a single fake)
		m := len(fakes) / 2
		out = append(append(append([]Sign{}, fakes[:m]...), g), fakes[m:]...)
		if len(fakes) == 1 && r.Chance(30) {
			out = []Sign{fakes[0], fake(g, 40)}
		}
	}
	if r.Chance(35) { // mixed with a second genuine signature
		g2 := sg(k, g.SHash+1+r.Intn(3), round, idx, g.Kind)
		if len(hv) > 1 && r.Chance(50) {
			g2 = hv[r.Intn(len(hv))]
		}
		pos := r.Intn(len(out) + 1)
		out = append(out[:pos], append([]Sign{g2}, out[pos:]...)...)
		if r.Chance(40) {
			out = append(out, fake(g2, 50+r.Intn(4)))
		}
	}
	return out
}

// genVoterRun runs a real honest voter on the world of c (when its look-back
// sets resolve) and returns the run as a case of its own.
func genVoterRun(r *vf.Rng, c *Case) *Case {
	cert := r.Chance(40)
	if !lookbackResolves(c, c.Parent, cert) {
		return nil
	}
	set := expectedSetOf(c, &Ev{Round: c.Parent, VType: 2})
	var ks []int
	for _, v := range set {
		if !v.BadMain && v.Bls == v.Key {
			ks = append(ks, v.Key)
		}
	}
	if len(ks) == 0 {
		return nil
	}
	vc := *c
	vc.Mode, vc.Evs, vc.Obs = "voter", nil, Obs{}
	vc.VRun = &VoterRun{Key: ks[r.Intn(len(ks))], Index: uint32(1 + r.Intn(3)), A: 1 + r.Intn(6), Quorum: r.Intn(3), Cert: cert}
	vc.VRun.B = vc.VRun.A
	if r.Chance(55) {
		vc.VRun.B = 1 + r.Intn(6)
	}
	observe(&vc)
	vc.observed = true
	return &vc
}

func genDetectRun(r *vf.Rng, c *Case) *Case {
	if !lookbackResolves(c, c.Parent, true) {
		return nil
	}
	set := expectedSetOf(c, &Ev{Round: c.Parent, VType: 2})
	var ks []int
	for _, v := range set {
		if !v.BadMain && v.Bls == v.Key {
			ks = append(ks, v.Key)
		}
	}
	if len(ks) < 2 {
		return nil
	}
	dc := *c
	dc.Mode, dc.Evs, dc.Obs = "detect", nil, Obs{}
	o := r.Intn(len(ks))
	dr := &DetectRun{Observer: ks[o], Signer: ks[(o+1+r.Intn(len(ks)-1))%len(ks)], Index: uint32(1 + r.Intn(3))}
	n := 2 + r.Intn(6)
	for i := 0; i < n; i++ {
		dr.Msgs = append(dr.Msgs, VoteMsg{Kind: int(r.Pick([]uint64{2, 2, 2, 3, 3, 4, 4, 5})), Hash: r.Intn(4)})
	}
	dc.DRun = dr
	return &dc
}

func genCase(r *vf.Rng) (Case, []Case) {
	c := genWorld(r)
	var extra []Case
	if r.Chance(45) {
		if vc := genVoterRun(r, &c); vc != nil {
			extra = append(extra, *vc)
			if c.realHV == nil {
				c.realHV = map[string][]Sign{}
			}
			c.realHV[fmt.Sprintf("%d/%d", vc.VRun.Key, vc.VRun.Index)] = signsOfRun(vc)
		}
	}
	if r.Chance(40) {
		if lc := genLifeRun(r, &c); lc != nil {
			extra = append(extra, *lc)
			if c.realHV == nil {
				c.realHV = map[string][]Sign{}
			}
			for k, v := range signsOfLife(lc) {
				c.realHV[k] = v
			}
		}
	}
	if r.Chance(30) {
		if dc := genDetectRun(r, &c); dc != nil {
			extra = append(extra, *dc)
		}
	}
	switch {
	case r.Chance(12) && len(c.Vals) > 0:
		c.Mode = "penal"
		v := c.Vals[r.Intn(len(c.Vals))]
		c.PenKey = v.Key
		tok := bigOf(v.Token)
		var a *big.Int
		switch r.Intn(7) {
		case 0:
			a = big.NewInt(0)
		case 1:
			a = big.NewInt(int64(r.Intn(200)) - 20)
		case 2:
			a = new(big.Int).Set(tok)
		case 3:
			a = new(big.Int).Add(tok, big.NewInt(int64(r.Intn(5))))
		default:
			a = new(big.Int).Div(new(big.Int).Mul(tok, big.NewInt(int64(1+r.Intn(100)))), big.NewInt(100))
		}
		c.PenAmt = a.String()
	default:
		c.Mode = "build"
		if r.Chance(30) {
			c.Mode = "replay"
			c.SD = "list"
			if r.Chance(6) {
				c.SD = "none"
			} else if r.Chance(6) {
				c.SD = "garbage"
			}
		}
		n := 1 + r.Heavy(8)
		if r.Chance(4) {
			n = 0
		}
		c.Evs = []Ev{}
		for i := 0; i < n; i++ {
			if len(c.Evs) > 0 && r.Chance(12) {
				c.Evs = append(c.Evs, c.Evs[r.Intn(len(c.Evs))]) // the same evidence again
				continue
			}
			c.Evs = append(c.Evs, genEvidence(r, &c))
		}
		if c.SD == "none" || c.SD == "garbage" {
			c.Evs = []Ev{}
		}
	}
	return c, extra
}

// ---- classification ----------------------------------------------------------------

func caseKey(c *Case) string {
	cc := *c
	cc.Obs = Obs{}
	cc.Note = ""
	b, _ := json.Marshal(cc)
	return string(b)
}

func nontrivial(c *Case) bool {
	if c.Mode == "penal" {
		return true
	}
	if c.Mode == "life" {
		return len(c.Obs.Emitted) > 1
	}
	for i := range c.Evs {
		e := &c.Evs[i]
		if e.Kind == "ds" && e.Round == c.Parent && len(e.Signs) >= 2 && expectedSigner(c, e) != nil {
			return true
		}
	}
	return false
}

func classify(c *Case, res *vf.Result) {
	res.Count("mode_" + c.Mode)
	if c.Head != nil && *c.Head != c.Parent && (c.Mode == "build" || c.Mode == "replay") {
		res.Count("local_head_is_not_the_parent")
	}
	o := &c.Obs
	switch c.Mode {
	case "voter":
		kinds := map[int]int{}
		for _, e := range o.Emitted {
			kinds[e.Kind]++
			res.Count(fmt.Sprintf("voter_sent_kind_%d", e.Kind))
		}
		if kinds[4] == 2 {
			res.Count("voter_sent_two_next_index_votes")
		}
		var h2, h3 = -2, -2
		for _, e := range o.Emitted {
			if e.Kind == 2 {
				h2 = e.Hash
			}
			if e.Kind == 3 {
				h3 = e.Hash
			}
		}
		if h2 != -2 && h3 != -2 && h2 != h3 {
			res.Count("voter_prevote_and_precommit_differ")
		}
		return
	case "detect":
		res.Count(fmt.Sprintf("detector_posted_%d", len(o.Detected)))
		return
	case "life":
		restarts, kills, reentry := 0, 0, false
		for _, op := range c.LRun.Ops {
			switch op.Op {
			case "restart":
				restarts++
			case "kill":
				kills++
			}
		}
		lives := map[int]bool{}
		kindsAt := map[string]map[int]bool{}
		for _, e := range o.Emitted {
			lives[e.Life] = true
			k := fmt.Sprintf("%d/%d", e.Round, e.Index)
			if kindsAt[k] == nil {
				kindsAt[k] = map[int]bool{}
			}
			kindsAt[k][e.Kind] = true
		}
		for _, ks := range kindsAt {
			if len(ks) > 1 {
				reentry = true
			}
		}
		if restarts > 0 {
			res.Count("life_with_restart")
		}
		if kills > 0 {
			res.Count("life_with_kill_point")
		}
		if len(lives) > 1 {
			res.Count("life_votes_in_several_lifetimes")
		}
		if reentry && restarts+kills > 0 {
			res.Count("life_mixed_kinds_in_a_position_and_restart")
		}
		return
	}
	if len(c.Honest) > 0 {
		res.Count("evidence_from_a_life_pair_" + c.Mode)
	}
	if o.Panic != "" {
		res.Count("panic")
		return
	}
	if o.Err {
		res.Count("replay_error")
	}
	if c.Mode == "penal" {
		if bigOf(c.PenAmt).Sign() <= 0 {
			res.Count("penal_nonpositive_amount")
		} else if len(o.Logs) > 0 && len(o.Logs[0].FromW) > 0 && len(o.Logs[0].FromD) > 0 {
			res.Count("penal_from_withdraw_and_deposit")
		} else if len(o.Logs) > 0 && len(o.Logs[0].FromW) > 0 {
			res.Count("penal_from_withdraw_only")
		} else {
			res.Count("penal_from_deposit_only")
		}
		return
	}
	if len(o.Confirmed) > 0 {
		res.Count("some_evidence_confirmed")
	}
	if len(o.Pending) > 0 {
		res.Count("some_evidence_pending")
	}
	if len(o.Logs) > 1 {
		res.Count("several_validators_slashed")
	}
	for _, l := range o.Logs {
		if len(l.FromW) > 0 {
			res.Count("slash_took_from_withdrawals")
		}
		if len(l.FromD) > 1 {
			res.Count("slash_took_from_delegations")
		}
	}
	conf := map[int]bool{}
	for _, i := range o.Confirmed {
		conf[i] = true
	}
	pend := map[int]bool{}
	for _, i := range o.Pending {
		pend[i] = true
	}
	for i := range c.Evs {
		e := &c.Evs[i]
		if e.Kind == "ds" && hasRelabel(e) {
			res.Count("ev_one_signature_under_several_hashes")
			if e.Round == c.Parent {
				res.Count("ev_one_signature_under_several_hashes_parent_round_" + c.Mode)
			}
		}
		switch {
		case e.Kind != "ds":
			res.Count("ev_" + e.Kind)
		case conf[i]:
			res.Count("ev_confirmed_" + evClass(c, e))
		case pend[i] && e.Round > c.Parent:
			res.Count("ev_pending_future")
		case pend[i]:
			res.Count("ev_pending_past")
		case e.Round < c.Parent:
			res.Count("ev_dropped_expired")
		case e.Round != c.Parent:
			res.Count("ev_dropped_other_round")
		case len(e.Signs) < 2:
			res.Count("ev_rejected_too_few_signs")
		default:
			res.Count("ev_not_confirmed_" + evClass(c, e))
		}
	}
}

// hasRelabel: two entries carry byte-identical signatures under different hashes.
func hasRelabel(e *Ev) bool {
	for i, a := range e.Signs {
		for _, b := range e.Signs[i+1:] {
			if a.Hash != b.Hash && a.By >= 0 && a.By == b.By && a.SHash == b.SHash && a.SRound == b.SRound && a.SIndex == b.SIndex {
				return true
			}
		}
	}
	return false
}

// evClass describes an evidence of the parent round by what it proves.
func evClass(c *Case, e *Ev) string {
	sgn := expectedSigner(c, e)
	if sgn == nil {
		return "no_signer"
	}
	if sgn.Bls < 0 {
		return "signer_key_undecodable"
	}
	for _, s := range e.Signs {
		if !symValid(s, sgn.Bls, e) {
			return "invalid_signature"
		}
	}
	return justification(e)
}

// justification of an evidence all of whose signatures are valid:
// "equivocation" (two different hashes of one kind other than next-index),
// "duplicate" (a single hash), "next_index_pair", "cross_kind".
func justification(e *Ev) string {
	hashes := map[int]bool{}
	for _, s := range e.Signs {
		hashes[s.Hash] = true
	}
	if len(hashes) < 2 {
		return "duplicate"
	}
	ni := false
	for i, a := range e.Signs {
		for _, b := range e.Signs[i+1:] {
			if a.Hash != b.Hash && a.Kind == b.Kind && a.Kind != 0 {
				if a.Kind != 4 {
					return "equivocation"
				}
				ni = true
			}
		}
	}
	if ni {
		return "next_index_pair"
	}
	return "cross_kind"
}

// ---- oracle ----------------------------------------------------------------------------

type Hit struct {
	What   string `json:"what"`
	Detail string `json:"detail"`
	Case   Case   `json:"case"`
}

func sortedKeys(m map[int]*ValObs) []int {
	var ks []int
	for k := range m {
		ks = append(ks, k)
	}
	sort.Ints(ks)
	return ks
}

// unverifiedPair checks every listed (hash, signature) pair of an evidence with
// the BLS library under the key registered for the named validator, over
// hash||round||index.  "" = all pairs verify.
func unverifiedPair(e *Ev, sgn *LbVal) string {
	if sgn.Bls < 0 {
		return "the named validator's BLS key does not decode"
	}
	pk := key(sgn.Bls).pk
	for j, s := range e.Signs {
		sig, err := blsMgr.DecSignature(sigBytes(s))
		if err != nil {
			return fmt.Sprintf("signature %d does not decode", j)
		}
		if pk.Verify(payload(hashOf(s.Hash), e.Round, e.RIndex), sig) != nil {
			return fmt.Sprintf("pair %d (hash %d) does not verify under the validator's key", j, s.Hash)
		}
	}
	return ""
}

func valBefore(c *Case, k int) *CurVal {
	for i := range c.Vals {
		if c.Vals[i].Key == k {
			return &c.Vals[i]
		}
	}
	return nil
}

func sameVal(b *CurVal, a *ValObs) bool {
	if b.Status != a.Status || b.Expelled != a.Expelled || b.Expire != a.Expire || b.Token != a.Token ||
		b.Stake != a.Stake || b.SelfToken != a.SelfToken || b.SelfStake != a.SelfStake || len(b.Dlgs) != len(a.Dlgs) {
		return false
	}
	for i := range b.Dlgs {
		if b.Dlgs[i] != a.Dlgs[i] {
			return false
		}
	}
	return true
}

func consistent(v *CurVal) bool {
	sum := bigOf(v.SelfStake)
	tsum := bigOf(v.SelfToken)
	if sum.Sign() < 0 || tsum.Sign() < 0 {
		return false
	}
	last := 0
	for _, d := range v.Dlgs {
		if d.D <= last {
			return false
		}
		last = d.D
		sum.Add(sum, bigOf(d.Stake))
		tsum.Add(tsum, bigOf(d.Token))
	}
	return sum.Cmp(bigOf(v.Stake)) == 0 && sum.Sign() > 0 && tsum.Cmp(bigOf(v.Token)) == 0
}

// oracleAny dispatches on the case mode.
func oracleAny(c *Case, fx Fixes) []Hit {
	switch c.Mode {
	case "voter":
		return oracleVoter(c)
	case "detect":
		return oracleDetect(c)
	case "life":
		return oracleLife(c)
	}
	hits := oracle(c, fx)
	if d := checkBLS(c); d != "" {
		hits = append(hits, Hit{What: "bls-rule-disagreement", Detail: d, Case: *c})
	}
	return hits
}

// oracle states the property over what the implementation did.
func oracle(c *Case, fx Fixes) []Hit {
	var hits []Hit
	hit := func(what, detail string) {
		cc := *c
		hits = append(hits, Hit{What: what, Detail: detail, Case: cc})
	}
	o := &c.Obs
	if o.Panic != "" {
		zero := false
		for _, v := range c.Vals {
			if bigOf(v.Stake).Sign() == 0 {
				zero = true
			}
		}
		if !(zero && strings.Contains(o.Panic, "division by zero")) {
			hit("panic", o.Panic)
		}
		return hits
	}
	after := map[int]*ValObs{}
	for i := range o.State.Vals {
		after[o.State.Vals[i].Addr-1] = &o.State.Vals[i]
	}
	// candidate justifications per validator key (pipeline modes)
	type cand struct {
		idx int
		why string
	}
	cands := map[int][]cand{}
	if c.Mode != "penal" {
		for i := range c.Evs {
			e := &c.Evs[i]
			if e.Kind != "ds" || e.Round != c.Parent || len(e.Signs) < 2 {
				continue
			}
			if cl := evClass(c, e); cl == "equivocation" || cl == "duplicate" || cl == "next_index_pair" || cl == "cross_kind" {
				sgn := expectedSigner(c, e)
				if !sgn.BadMain {
					cands[sgn.Key] = append(cands[sgn.Key], cand{i, cl})
				}
			}
		}
	}
	logsFor := map[int]int{}
	for _, l := range o.Logs {
		logsFor[l.Addr-1]++
	}
	confFor := map[int]int{}
	for _, i := range o.Confirmed {
		if i >= 0 && i < len(c.Evs) && c.Evs[i].Kind == "ds" {
			if sgn := expectedSigner(c, &c.Evs[i]); sgn != nil && !sgn.BadMain {
				confFor[sgn.Key]++
			}
		} else {
			hit("confirmed-unknown-evidence", fmt.Sprintf("confirmed list names input %d", i))
		}
	}
	totalTaken := new(big.Int)
	zeroPenalised := false
	for _, k := range sortedKeys(after) {
		a := after[k]
		b := valBefore(c, k)
		penalised := !sameVal(b, a) || logsFor[k] > 0 || confFor[k] > 0
		// amount that may be taken
		allowed := new(big.Int)
		if c.Mode == "penal" {
			if k == c.PenKey {
				penalised = true
				allowed = bigOf(c.PenAmt)
				if allowed.Sign() < 0 {
					allowed = new(big.Int)
				}
			}
		} else {
			allowed.Div(new(big.Int).Mul(bigOf(b.Token), new(big.Int).SetUint64(c.Cfg.Fraction)), big.NewInt(100))
		}
		// what was taken from this validator's sources
		taken := new(big.Int).Sub(bigOf(b.Token), bigOf(a.Token))
		bySource := map[int]*big.Int{0: new(big.Int).Sub(bigOf(b.SelfToken), bigOf(a.SelfToken))}
		ad := map[int]Dlg{}
		for _, d := range a.Dlgs {
			ad[d.D] = d
		}
		for _, d := range b.Dlgs {
			dec := bigOf(d.Token)
			if x, ok := ad[d.D]; ok {
				dec.Sub(dec, bigOf(x.Token))
				if bigOf(x.Token).Sign() < 0 {
					hit("negative-balance", fmt.Sprintf("delegation %d of validator %d is negative afterwards", d.D, k))
				}
			}
			if dec.Sign() < 0 {
				hit("source-increased", fmt.Sprintf("delegation %d of validator %d grew", d.D, k))
			}
			if bySource[d.D] == nil {
				bySource[d.D] = new(big.Int)
			}
			bySource[d.D].Add(bySource[d.D], dec)
		}
		if len(o.State.Queue) != len(c.Queue) {
			hit("queue-length-changed", "")
			return hits
		}
		for i, q := range c.Queue {
			qa := o.State.Queue[i]
			if q.Val != k {
				continue
			}
			dec := new(big.Int).Sub(bigOf(q.Final), bigOf(qa.Final))
			if dec.Sign() != 0 && q.Finished != 0 {
				hit("finished-withdrawal-touched", fmt.Sprintf("queue entry %d", i))
			}
			if dec.Sign() < 0 {
				hit("source-increased", fmt.Sprintf("queue entry %d grew", i))
			}
			if bigOf(qa.Final).Sign() < 0 && bigOf(q.Final).Sign() >= 0 {
				hit("negative-balance", fmt.Sprintf("queue entry %d is negative afterwards", i))
			}
			taken.Add(taken, dec)
			if bySource[q.D] == nil {
				bySource[q.D] = new(big.Int)
			}
			bySource[q.D].Add(bySource[q.D], dec)
		}
		totalTaken.Add(totalTaken, taken)
		if !penalised {
			if taken.Sign() != 0 {
				hit("taken-without-penalty", fmt.Sprintf("validator %d lost %s", k, taken))
			}
			continue
		}
		if bigOf(a.Token).Sign() < 0 && bigOf(b.Token).Sign() >= 0 {
			hit("negative-balance", fmt.Sprintf("validator %d token negative afterwards", k))
		}
		if logsFor[k] > 1 || confFor[k] > 1 {
			hit("penalised-twice", fmt.Sprintf("validator %d: %d logs, %d confirmed evidences", k, logsFor[k], confFor[k]))
		}
		if taken.Sign() == 0 && c.Mode == "build" {
			zeroPenalised = true
		}
		// ---- the bound (only meaningful on a ledger that satisfies the C08 invariant)
		if consistent(b) {
			if taken.Cmp(allowed) > 0 {
				hit("penalty-above-fraction", fmt.Sprintf("validator %d: took %s, allowed %s", k, taken, allowed))
			}
			// shares
			risk := int64(b.Risk)
			obligation := new(big.Int)
			curr := new(big.Int).Set(allowed)
			if risk > 0 && risk <= int64(params.CommissionRateBase) {
				obligation.Div(new(big.Int).Mul(curr, big.NewInt(risk)), big.NewInt(int64(params.CommissionRateBase)))
				curr.Sub(curr, obligation)
			}
			per, rem := new(big.Int).QuoRem(curr, bigOf(b.Stake), new(big.Int))
			var srcs []int
			for src := range bySource {
				srcs = append(srcs, src)
			}
			sort.Ints(srcs)
			for _, src := range srcs {
				dec := bySource[src]
				share := new(big.Int)
				if src == 0 {
					share.Mul(per, bigOf(b.SelfStake))
					share.Add(share, rem)
					share.Add(share, obligation)
				} else {
					for _, d := range b.Dlgs {
						if d.D == src {
							share.Mul(per, bigOf(d.Stake))
						}
					}
				}
				if dec.Cmp(share) > 0 {
					hit("source-above-share", fmt.Sprintf("validator %d source %d: took %s, share %s", k, src, dec, share))
				}
			}
		}
		if c.Mode == "penal" {
			continue
		}
		// ---- accepted => EVERY listed (hash, signature) pair verifies, judged by the BLS library itself
		for _, i := range o.Confirmed {
			if i < 0 || i >= len(c.Evs) || c.Evs[i].Kind != "ds" {
				continue
			}
			e := &c.Evs[i]
			if sgn := expectedSigner(c, e); sgn != nil && !sgn.BadMain && sgn.Key == k {
				if bad := unverifiedPair(e, sgn); bad != "" {
					hit("accepted-evidence-with-unverified-pair", fmt.Sprintf("validator %d was penalised on evidence %d although %s", k, i, bad))
				}
			}
		}
		// ---- only real equivocation is slashable
		// the evidence the implementation acted on: a confirmed one naming this
		// validator if there is one, else (nothing taken, evidence not confirmed)
		// the first candidate the implementation can have accepted
		best := ""
		isConf := map[int]bool{}
		for _, i := range o.Confirmed {
			isConf[i] = true
		}
		for pass := 0; pass < 2 && best == ""; pass++ {
			for _, cd := range cands[k] {
				if pass == 0 && !isConf[cd.idx] {
					continue
				}
				if pass == 1 && fx.Distinct && cd.why == "duplicate" {
					continue
				}
				if cd.why == "equivocation" {
					best = cd.why
					break
				}
				if best == "" {
					best = cd.why
				}
			}
		}
		switch best {
		case "equivocation":
			for _, hk := range c.Honest {
				if hk == k && stillSent(c) {
					hit("protocol-following-validator-slashed", fmt.Sprintf("evidence against a validator that followed the protocol is accepted: validator %d only ran the real Voter (restarts and crashes included), two of the votes it sent are a complete double-sign evidence and it was penalised (%s)", k, c.Note))
				}
			}
		case "":
			hit("penalised-without-valid-evidence", fmt.Sprintf("validator %d was penalised but no evidence of the parent round carries only valid signatures of its key", k))
		case "duplicate":
			hit("duplicate-signature-accepted", fmt.Sprintf("validator %d was penalised on an evidence that lists one signed hash several times", k))
		case "cross_kind":
			hit("cross-kind-pair-accepted", fmt.Sprintf("validator %d was penalised on votes of different kinds (the signed payload carries no vote kind)", k))
		case "next_index_pair":
			hit("next-index-pair-accepted", fmt.Sprintf("validator %d was penalised on its two next-index votes", k))
		}
	}
	// ---- real equivocation must be punished (first evidence per validator decides)
	if c.Mode != "penal" {
		var ck []int
		for k := range cands {
			ck = append(ck, k)
		}
		sort.Ints(ck)
		for _, k := range ck {
			cs := cands[k]
			b := valBefore(c, k)
			if b == nil {
				continue
			}
			has := false
			for _, cd := range cs {
				if cd.why == "equivocation" {
					// with the pairwise-distinct repair an evidence that repeats a pair is refused as a whole
					has = true
				}
			}
			if !has {
				continue
			}
			a := after[k]
			if a == nil || a.Status != 0 || !a.Expelled || a.Expire < c.HNum+c.Cfg.Expel {
				hit("real-equivocation-not-punished", fmt.Sprintf("validator %d equivocated in the parent round but is not offline+expelled afterwards", k))
			}
		}
	}
	// ---- the penalty account receives exactly what was taken
	if got := bigOf(o.State.PenaltyTo); got.Cmp(totalTaken) != 0 {
		neg := c.Mode == "penal" && bigOf(c.PenAmt).Sign() < 0
		if !neg {
			hit("penalty-not-conserved", fmt.Sprintf("taken %s, penalty account received %s", totalTaken, got))
		}
	}
	sumLogs := new(big.Int)
	for _, l := range o.Logs {
		sumLogs.Add(sumLogs, bigOf(l.Total))
	}
	if c.Mode != "penal" && sumLogs.Cmp(totalTaken) != 0 {
		hit("log-total-mismatch", fmt.Sprintf("taken %s, logged %s", totalTaken, sumLogs))
	}
	// ---- builder and validator agree
	if c.Mode == "build" && o.Replay != nil {
		rp := o.Replay
		sa, _ := json.Marshal(o.State)
		sb, _ := json.Marshal(rp.State)
		la, _ := json.Marshal(o.Logs)
		lb, _ := json.Marshal(rp.Logs)
		if rp.Panic != "" || rp.Err || string(sa) != string(sb) || string(la) != string(lb) {
			if zeroPenalised && !fx.Zero {
				hit("zero-penalty-builder-only", "the builder expelled a validator whose penalty rounds to zero but left the evidence out of the slash data; the validator's replay keeps it online")
			} else {
				hit("builder-validator-divergence", fmt.Sprintf("replay panic=%q err=%v state_equal=%v logs_equal=%v", rp.Panic, rp.Err, string(sa) == string(sb), string(la) == string(lb)))
			}
		}
	}
	return hits
}

// ---- Coq printer -----------------------------------------------------------------------

func nN(x uint64) string { return fmt.Sprintf("%d%%N", x) }
func nI(x int) string {
	if x < 0 {
		return "999999%N"
	}
	return fmt.Sprintf("%d%%N", x)
}
func zS(s string) string { return "(" + s + ")" }

func dlgsCoq(ds []Dlg) string {
	var xs []string
	for _, d := range ds {
		xs = append(xs, fmt.Sprintf("mkDlg %s %s %s", nI(1000+d.D), zS(d.Stake), zS(d.Token)))
	}
	return vf.List(xs)
}

func stateCoq(vals []ValObs, queue []WRec, pt string) string {
	var vs, qs []string
	for _, v := range vals {
		vs = append(vs, fmt.Sprintf("mkVal %s %s %s %s %s %s %s %s %s %s", nI(v.Addr), nN(uint64(v.Status)), vf.Bool(v.Expelled),
			nN(v.Expire), zS(v.Token), zS(v.Stake), zS(v.SelfToken), zS(v.SelfStake), nN(uint64(v.Risk)), dlgsCoq(v.Dlgs)))
	}
	for _, q := range queue {
		d := 0
		if q.D != 0 {
			d = 1000 + q.D
		}
		qs = append(qs, fmt.Sprintf("mkW %s %s %s %s", nI(d), nI(q.Val+1), nN(uint64(q.Finished)), zS(q.Final)))
	}
	return fmt.Sprintf("(mkSt %s %s %s)", vf.List(vs), vf.List(qs), zS(pt))
}

func beforeState(c *Case) string {
	var vals []ValObs
	seen := map[int]bool{}
	for _, v := range c.Vals {
		if seen[v.Key] {
			continue
		}
		seen[v.Key] = true
		vals = append(vals, ValObs{Addr: v.Key + 1, Status: v.Status, Expelled: v.Expelled, Expire: v.Expire, Token: v.Token,
			Stake: v.Stake, SelfToken: v.SelfToken, SelfStake: v.SelfStake, Risk: v.Risk, Dlgs: v.Dlgs})
	}
	return stateCoq(vals, c.Queue, "0")
}

func intsCoq(xs []int) string {
	var s []string
	for _, x := range xs {
		s = append(s, nI(x))
	}
	return vf.List(s)
}

func logsCoq(ls []Log) string {
	var xs []string
	for _, l := range ls {
		var ws, ds []string
		for _, w := range l.FromW {
			ws = append(ws, fmt.Sprintf("(%s, %s)", nI(w.Pos), zS(w.Final)))
		}
		for _, d := range l.FromD {
			ds = append(ds, fmt.Sprintf("(%s, %s)", nI(d.Addr), zS(d.Amount)))
		}
		xs = append(xs, fmt.Sprintf("mkLog %s %s %s 0 %s", nI(l.Addr), zS(l.Total), vf.List(ws), vf.List(ds)))
	}
	return vf.List(xs)
}

func caseCoq(c *Case, fx Fixes) string {
	sigIDs := map[string]int{}
	sigID := func(s Sign) int {
		h := hex.EncodeToString(sigBytes(s))
		if id, ok := sigIDs[h]; ok {
			return id
		}
		sigIDs[h] = len(sigIDs) + 1
		return sigIDs[h]
	}
	var valid []string
	seenValid := map[string]bool{}
	var evs []string
	for i := range c.Evs {
		e := &c.Evs[i]
		switch e.Kind {
		case "other":
			evs = append(evs, "EvOther")
			continue
		case "bad":
			evs = append(evs, "EvBadData")
			continue
		}
		var ss []string
		for _, s := range e.Signs {
			id := sigID(s)
			ss = append(ss, fmt.Sprintf("(%s, %s)", nI(s.Hash), nI(id)))
			if s.By >= 0 && symValid(s, s.By, e) {
				t := fmt.Sprintf("(%s, %s, %s, %s, %s)", nI(s.By), nI(s.Hash), nN(e.Round), nN(uint64(e.RIndex)), nI(id))
				if !seenValid[t] {
					seenValid[t] = true
					valid = append(valid, t)
				}
			}
		}
		evs = append(evs, fmt.Sprintf("EvDS %s %s %s %s %s", nN(e.Round), nN(uint64(e.RIndex)), nN(uint64(e.Idx)), nN(uint64(e.VType)), vf.List(ss)))
	}
	var hs, sets []string
	for _, h := range c.Headers {
		hs = append(hs, fmt.Sprintf("(%s, %s)", nN(h.Num), nI(h.Set)))
	}
	for _, set := range c.Sets {
		var vs []string
		for _, v := range sortedSet(set) {
			a := v.Key + 1
			if v.BadMain {
				a = 0
			}
			pk := "None"
			if v.Bls >= 0 {
				pk = "(Some " + nI(v.Bls) + ")"
			}
			vs = append(vs, fmt.Sprintf("mkLb %s %s", nI(a), pk))
		}
		sets = append(sets, vf.List(vs))
	}
	mode := ""
	switch c.Mode {
	case "build":
		mode = "(MBuild " + vf.List(evs) + ")"
	case "replay":
		switch c.SD {
		case "none":
			mode = "(MReplay SDNone)"
		case "garbage":
			mode = "(MReplay SDGarbage)"
		default:
			mode = "(MReplay (SDList " + vf.List(evs) + "))"
		}
	case "penal":
		mode = fmt.Sprintf("(MPenal %s %s)", nI(c.PenKey+1), zS(c.PenAmt))
	case "life":
		mode = "(MVotes " + votesCoq(c) + ")"
	}
	o := &c.Obs
	total := o.Total
	if total == "" {
		total = "0"
	}
	obs := fmt.Sprintf("(mkObs %s %s %s %s %s %s %s %s)", vf.Bool(o.Panic != ""), vf.Bool(o.Err), intsCoq(o.Confirmed), intsCoq(o.Pending),
		intsCoq(o.Affected), logsCoq(o.Logs), stateCoq(o.State.Vals, o.State.Queue, orZero(o.State.PenaltyTo)), zS(total))
	return fmt.Sprintf("mkCase (mkFix %s %s) (mkCfg %s %s %s %s %s %s %s) (mkChain %s %s) %s %s %s %s %s %s",
		vf.Bool(fx.Distinct), vf.Bool(fx.Zero),
		nN(c.Cfg.Fraction), nN(c.Cfg.Expel), nN(c.Cfg.MaxExpired), nN(c.Cfg.StakeLB), nN(2*params.ACoCHTFrequency), zS(params.StakeUint.String()), nN(uint64(params.CommissionRateBase)),
		vf.List(hs), vf.List(sets), vf.List(valid), nN(headOf(c)), nN(c.HNum), beforeState(c), mode, obs)
}

func orZero(s string) string {
	if s == "" {
		return "0"
	}
	return s
}

// paramsTable dumps the protocol constants the model takes as parameters.
func paramsTable(out string) {
	var sb strings.Builder
	sb.WriteString("(* GENERATED by harness/cmd/c05 from the working tree's params package. Do not edit. *)\nFrom Coq Require Import NArith ZArith List.\nImport ListNotations.\n")
	sb.WriteString(fmt.Sprintf("Definition real_stake_unit : Z := (%s)%%Z.\n", params.StakeUint.String()))
	sb.WriteString(fmt.Sprintf("Definition real_rate_base : N := %d%%N.\n", params.CommissionRateBase))
	sb.WriteString(fmt.Sprintf("Definition real_cert_lookback : N := %d%%N.\n", 2*params.ACoCHTFrequency))
	// the vote-kind numbering is declared twice: consensus/ucon (what voters and the detector use) and staking (what the evidence check reads)
	sb.WriteString(fmt.Sprintf("Definition real_kinds_ucon : list N := [%d%%N; %d%%N; %d%%N; %d%%N].\n", ucon.Prevote, ucon.Precommit, ucon.NextIndex, ucon.Certificate))
	sb.WriteString(fmt.Sprintf("Definition real_kinds_staking : list N := [%d%%N; %d%%N; %d%%N; %d%%N].\n", staking.Prevote, staking.Precommit, staking.NextIndex, staking.Certificate))
	// which of the two repairs (0c3d6f7 two different hashes, e1d256e zero-penalty evidence confirmed) the tree contains
	fx := probeFixes()
	sb.WriteString(fmt.Sprintf("Definition real_fx_distinct : bool := %s.\nDefinition real_fx_zero : bool := %s.\n", vf.Bool(fx.Distinct), vf.Bool(fx.Zero)))
	var fr []string
	for _, id := range []uint64{params.MainNetId, params.TestNetId, params.NetworkIdForTestCase} {
		params.InitNetworkId(id)
		for v, yp := range params.Versions {
			if v >= params.YouV5 {
				fr = append(fr, fmt.Sprintf("%d%%N", yp.PenaltyFractionForDoubleSign))
			}
		}
	}
	sort.Strings(fr)
	sb.WriteString("Definition real_fractions : list N := " + vf.List(fr) + ".\n")
	vf.WriteIfChanged(out, sb.String())
}
