package main

// The consensus side of C05: the votes a protocol-following validator really
// signs (Voter.updateContext / judgeVoteCount / vote / signVote /
// VoteBLSMgr.SignVote) and the evidence the honest double-vote detector really
// emits (Voter.processVoteMsg).  Both run on the same world (validator sets,
// look-back chain, keys) as the staking side.

import (
	"bytes"
	"crypto/ecdsa"
	"fmt"
	"math/big"
	"sort"
	"sync"
	"sync/atomic"
	"time"

	"github.com/youchainhq/go-youchain/common"
	"github.com/youchainhq/go-youchain/consensus/ucon"
	"github.com/youchainhq/go-youchain/core/state"
	"github.com/youchainhq/go-youchain/core/types"
	"github.com/youchainhq/go-youchain/event"
	"github.com/youchainhq/go-youchain/logging"
	"github.com/youchainhq/go-youchain/params"
	"github.com/youchainhq/go-youchain/rlp"
	"github.com/youchainhq/go-youchain/staking"
	"github.com/youchainhq/go-youchain/youdb"
)

// VoterRun describes one honest run of validator Key at (parent round, Index):
// it prevotes A (its highest-priority block); Quorum 0: no prevote quorum is
// seen, 1: the prevote quorum for B arrives before the precommit step, 2: after
// it; Cert: the round needs certificate votes and the precommit quorum arrives.
type VoterRun struct {
	Key    int    `json:"key"`
	Index  uint32 `json:"index"`
	A      int    `json:"a"`
	B      int    `json:"b"`
	Quorum int    `json:"quorum"`
	Cert   bool   `json:"cert"`
}

// Emitted is one vote that left the honest voter.
type Emitted struct {
	Kind  int    `json:"kind"`
	Hash  int    `json:"hash"` // hash id, -1 = not one of the run's hashes
	Idx   uint32 `json:"idx"`  // SingleVote.VoterIdx
	SigOK bool   `json:"sig_ok"` // signature bytes = BLS signature of the key over hash||round||index
	Round uint64 `json:"round"`
	Index uint32 `json:"index"`
	Life  int    `json:"life,omitempty"` // life runs: which process lifetime sent it (1 = before the first restart)
}

// DetectRun: an honest observer (key Observer) receives, in order, votes signed
// by key Signer for (parent round, Index).
type DetectRun struct {
	Observer int       `json:"observer"`
	Signer   int       `json:"signer"`
	Index    uint32    `json:"index"`
	Msgs     []VoteMsg `json:"msgs"`
}
type VoteMsg struct {
	Kind int `json:"kind"`
	Hash int `json:"hash"`
}

var (
	selfVotes   int64 // "SelfVote." log records (one per vote that leaves the node)
	doubleVotes int64 // "DoubleVote." log records (one per evidence the detector posts)
)

func installLogCounter() {
	logging.Root().SetHandler(logging.FuncHandler(func(r *logging.Record) error {
		switch {
		case r.Lvl == logging.LvlCrit:
			panic("CRIT: " + r.Msg) // logging.Crit would exit the process
		case r.Msg == "SelfVote.":
			atomic.AddInt64(&selfVotes, 1)
		case r.Msg == "DoubleVote.":
			atomic.AddInt64(&doubleVotes, 1)
		}
		return nil
	}))
}

type lbm struct{ w *world }

func (l *lbm) CurrentCaravelParams() *params.CaravelParams {
	cp := l.w.yp.CaravelParams
	cp.EnableBls = true
	return &cp
}
func (l *lbm) CertificateParams(round *big.Int) (*params.CaravelParams, error) {
	return l.CurrentCaravelParams(), nil
}
func (l *lbm) CurrentYouParams() *params.YouParams {
	yp := *l.w.yp
	yp.EnableBls = true
	return &yp
}
func (l *lbm) GetLookBackVldReader(cp *params.CaravelParams, num *big.Int, lbType params.LookBackType) (state.ValidatorReader, error) {
	return l.w.bc.LookBackVldReaderForRound(num.Uint64(), lbType == params.LookBackCertStake || lbType == params.LookBackCert)
}

type collector struct {
	lock sync.Mutex
	sent []ucon.SendMessageEvent
	evs  []staking.Evidence
}

func (c *collector) counts() (int, int) {
	c.lock.Lock()
	defer c.lock.Unlock()
	return len(c.sent), len(c.evs)
}

// waitFor blocks until the collector holds what the voter logged as sent (the
// mux delivers asynchronously), then until nothing more arrives for a moment.
func (c *collector) waitFor(wantSent, wantEvs int64) {
	deadline := time.Now().Add(5 * time.Second)
	for time.Now().Before(deadline) {
		s, e := c.counts()
		if int64(s) >= wantSent && int64(e) >= wantEvs {
			break
		}
		time.Sleep(200 * time.Microsecond)
	}
	for stable := 0; stable < 3; {
		s0, e0 := c.counts()
		time.Sleep(300 * time.Microsecond)
		s1, e1 := c.counts()
		if s0 == s1 && e0 == e1 {
			stable++
		} else {
			stable = 0
		}
	}
}

func newVoter(w *world, k int, best common.Hash) (*ucon.Voter, *collector) {
	b := best
	return newVoterOn(w, k, youdb.NewMemDatabase(), &b)
}

// newVoterOn builds a Voter over the given (possibly already used) database;
// *best is what getMaxPriorityFn answers at the moment it is asked.
func newVoterOn(w *world, k int, db youdb.Database, best *common.Hash) (*ucon.Voter, *collector) {
	mux := new(event.TypeMux)
	col := &collector{}
	sub := mux.Subscribe(ucon.SendMessageEvent{}, staking.Evidence{})
	go func() {
		for obj := range sub.Chan() {
			if obj == nil {
				return
			}
			col.lock.Lock()
			switch ev := obj.Data.(type) {
			case ucon.SendMessageEvent:
				col.sent = append(col.sent, ev)
			case staking.Evidence:
				col.evs = append(col.evs, ev)
			}
			col.lock.Unlock()
		}
	}()
	isVal := func(round *big.Int, roundIndex uint32, step uint32, lb params.LookBackType) (bool, *ucon.StepView) {
		return true, &ucon.StepView{SeedValue: common.Hash{1}, SortitionProof: []byte{1}, Priority: common.Hash{1},
			SubUsers: 1, Threshold: 1000, ValidatorType: params.KindChamber}
	}
	maxPrio := func(round *big.Int, roundIndex uint32) (common.Hash, common.Hash, bool) { return common.Hash{1}, *best, true }
	blk := types.NewBlockWithHeader(&types.Header{Number: big.NewInt(1), Subsidy: new(big.Int), GasRewards: new(big.Int)})
	inCache := func(h common.Hash, p common.Hash) *types.Block { return blk }
	verify := func(pk *ecdsa.PublicKey, d *ucon.SortitionData, lb params.LookBackType) error { return nil }
	stake := func(round *big.Int, addr common.Address, isProposer bool, lb params.LookBackType) (*big.Int, *big.Int, uint64, params.ValidatorKind, uint8, error) {
		return big.NewInt(1), big.NewInt(1), 1000, params.KindChamber, 0, nil
	}
	count := func(round *big.Int, kind params.ValidatorKind, lb params.LookBackType) uint64 { return 10 }
	pm := &lbm{w}
	v := ucon.NewVoter(db, key(k).ec, key(k).blsSk, mux, verify, isVal, maxPrio, inCache, stake, count, pm)
	v.SetLookBackMgr(pm)
	return v, col
}

// lookbackResolves: both validator sets a voter of round r loads exist.
func lookbackResolves(c *Case, r uint64, cert bool) bool {
	e := Ev{Round: r, VType: 2}
	if expectedSetOf(c, &e) == nil {
		return false
	}
	if cert {
		e.VType = 5
		if expectedSetOf(c, &e) == nil {
			return false
		}
	}
	return true
}

// expectedSetOf: the harness' own reading of which look-back set an evidence refers to.
func expectedSetOf(c *Case, e *Ev) []LbVal {
	pr := uint64(0)
	if e.Round > 8 {
		pr = e.Round - 8
	}
	find := func(n uint64) (int, bool) {
		for _, h := range c.Headers {
			if h.Num == n {
				return h.Set, true
			}
		}
		return 0, false
	}
	if _, ok := find(pr); !ok {
		return nil
	}
	cfg := c.Cfg.StakeLB
	if e.VType == uint8(ucon.Certificate) { // the kind as the consensus side numbers it
		cfg = params.ACoCHTFrequency * 2
	}
	si, ok := find(lookbackOf(e.Round, cfg))
	if !ok || si < 0 || si >= len(c.Sets) {
		return nil
	}
	return sortedSet(c.Sets[si])
}

func indexIn(set []LbVal, k int) int {
	for i, v := range set {
		if v.Key == k && !v.BadMain {
			return i
		}
	}
	return -1
}

func hashID(h common.Hash, ids ...int) int {
	for _, id := range ids {
		if hashOf(id) == h {
			return id
		}
	}
	return -1
}

// observeVoter runs one honest voter and records what it sent.
func observeVoter(c *Case) {
	vr := c.VRun
	w := buildWorld(c)
	ro := &c.Obs.RunObs
	ro.Confirmed, ro.Pending, ro.Affected, ro.Logs = []int{}, []int{}, []int{}, []Log{}
	c.Obs.Emitted = []Emitted{}
	guard(ro, func() {
		before := atomic.LoadInt64(&selfVotes)
		v, col := newVoter(w, vr.Key, hashOf(vr.A))
		round := new(big.Int).SetUint64(c.Parent)
		hb := hashOf(vr.B)
		prio := common.Hash{1}
		ucon.VerifC05UpdateContext(v, ucon.ContextChangeEvent{Round: round, RoundIndex: vr.Index, Step: ucon.UConStepPrevote, Certificate: vr.Cert})
		if vr.Quorum == 1 {
			ucon.VerifC05Judge(v, ucon.Prevote, 1000, 1000, hb, prio, params.KindChamber)
		}
		ucon.VerifC05UpdateContext(v, ucon.ContextChangeEvent{Round: round, RoundIndex: vr.Index, Step: ucon.UConStepPrecommit, Certificate: vr.Cert})
		if vr.Quorum == 2 {
			ucon.VerifC05Judge(v, ucon.Prevote, 1000, 1000, hb, prio, params.KindChamber)
		}
		if vr.Cert && vr.Quorum != 0 {
			ucon.VerifC05UpdateContext(v, ucon.ContextChangeEvent{Round: round, RoundIndex: vr.Index, Step: ucon.UConStepCertificate, Certificate: true})
			ucon.VerifC05Judge(v, ucon.Precommit, 1000, 1000, hb, prio, params.KindChamber)
		}
		col.waitFor(atomic.LoadInt64(&selfVotes)-before, 0)
		col.lock.Lock()
		defer col.lock.Unlock()
		for _, ev := range col.sent {
			var msg ucon.BlockHashWithVotes
			if err := rlp.DecodeBytes(ev.Payload, &msg); err != nil || msg.Vote == nil {
				continue
			}
			kind := int(ucon.MsgCodeToVoteType(ev.Code))
			hid := hashID(msg.BlockHash, 0, vr.A, vr.B)
			ideal := key(vr.Key).blsSk.Sign(payload(msg.BlockHash, msg.Round.Uint64(), msg.RoundIndex)).Compress()
			c.Obs.Emitted = append(c.Obs.Emitted, Emitted{Kind: kind, Hash: hid, Idx: msg.Vote.VoterIdx,
				SigOK: bytes.Equal(ideal[:], msg.Vote.Signature), Round: msg.Round.Uint64(), Index: msg.RoundIndex})
		}
		sort.SliceStable(c.Obs.Emitted, func(i, j int) bool {
			a, b := c.Obs.Emitted[i], c.Obs.Emitted[j]
			if a.Kind != b.Kind {
				return a.Kind < b.Kind
			}
			return a.Hash < b.Hash
		})
	})
}

// oracleVoter: what an honest validator sends is what the staking module will
// later verify - ideal signatures over hash||round||index of the right round
// and index, under the index the validator has in the look-back set of that
// vote kind - and respects one vote per kind (two next-index votes).
func oracleVoter(c *Case) []Hit {
	var hits []Hit
	hit := func(what, detail string) { hits = append(hits, Hit{What: what, Detail: detail, Case: *c}) }
	if c.Obs.Panic != "" {
		hit("panic", c.Obs.Panic)
		return hits
	}
	vr := c.VRun
	perKind := map[int][]int{}
	for _, e := range c.Obs.Emitted {
		if !e.SigOK {
			hit("honest-vote-signature-differs", fmt.Sprintf("vote kind %d: the signature is not the key's signature over hash||round||index", e.Kind))
		}
		if e.Round != c.Parent || e.Index != vr.Index {
			hit("honest-vote-wrong-position", fmt.Sprintf("vote kind %d sent for (%d,%d)", e.Kind, e.Round, e.Index))
		}
		set := expectedSetOf(c, &Ev{Round: c.Parent, VType: uint8(e.Kind)})
		if want := indexIn(set, vr.Key); want < 0 || uint32(want) != e.Idx {
			hit("honest-voter-index-differs", fmt.Sprintf("vote kind %d carries voter index %d, the look-back set has the validator at %d", e.Kind, e.Idx, want))
		}
		perKind[e.Kind] = append(perKind[e.Kind], e.Hash)
	}
	for k, hs := range perKind {
		limit := 1
		if k == 4 {
			limit = 2
		}
		if len(hs) > limit {
			hit("honest-voter-double-vote", fmt.Sprintf("%d votes of kind %d in one round/index", len(hs), k))
		}
	}
	if len(perKind[2]) == 0 {
		hit("honest-voter-silent", "no prevote left the voter")
	}
	return hits
}

// signsOfRun turns what an honest run sent into the signs an evidence can be built from.
func signsOfRun(c *Case) []Sign {
	var out []Sign
	for _, e := range c.Obs.Emitted {
		if e.SigOK && e.Hash >= 0 {
			out = append(out, sg(c.VRun.Key, e.Hash, e.Round, e.Index, e.Kind))
		}
	}
	return out
}

// ---- the honest detector ----------------------------------------------------------------

// expectedDetections: the first vote of each kind is stored; the first later
// vote of that kind for another hash yields one evidence (both hashes, both
// signatures); afterwards the sender is marked and nothing more is emitted.
// Next-index votes never yield evidence.
func expectedDetections(c *Case) []Ev {
	dr := c.DRun
	set := expectedSetOf(c, &Ev{Round: c.Parent, VType: 2})
	first := map[int]int{}
	have := map[int]bool{}
	done := map[int]bool{}
	var out []Ev
	for _, m := range dr.Msgs {
		st := set
		if m.Kind == 5 {
			st = expectedSetOf(c, &Ev{Round: c.Parent, VType: 5})
		}
		idx := indexIn(st, dr.Signer)
		if idx < 0 || st[idx].Bls != dr.Signer {
			continue // not in the set of this vote kind, or registered there with another BLS key: the vote does not verify
		}
		if !have[m.Kind] {
			have[m.Kind], first[m.Kind] = true, m.Hash
			continue
		}
		if done[m.Kind] || m.Kind == 4 || first[m.Kind] == m.Hash {
			continue
		}
		done[m.Kind] = true
		out = append(out, Ev{Kind: "ds", Round: c.Parent, RIndex: dr.Index, Idx: uint32(idx), VType: uint8(m.Kind),
			Signs: []Sign{sg(dr.Signer, first[m.Kind], c.Parent, dr.Index, m.Kind), sg(dr.Signer, m.Hash, c.Parent, dr.Index, m.Kind)}})
	}
	return out
}

func observeDetect(c *Case) {
	dr := c.DRun
	w := buildWorld(c)
	ro := &c.Obs.RunObs
	ro.Confirmed, ro.Pending, ro.Affected, ro.Logs = []int{}, []int{}, []int{}, []Log{}
	c.Obs.Detected = []string{}
	guard(ro, func() {
		before := atomic.LoadInt64(&doubleVotes)
		v, col := newVoter(w, dr.Observer, hashOf(1))
		round := new(big.Int).SetUint64(c.Parent)
		ucon.VerifC05UpdateContext(v, ucon.ContextChangeEvent{Round: round, RoundIndex: dr.Index, Step: ucon.UConStepPrevote, Certificate: true})
		for _, m := range dr.Msgs {
			set := expectedSetOf(c, &Ev{Round: c.Parent, VType: uint8(m.Kind)})
			idx := indexIn(set, dr.Signer)
			if idx < 0 {
				continue
			}
			msg := &ucon.BlockHashWithVotes{Priority: common.Hash{1}, BlockHash: hashOf(m.Hash), Round: round, RoundIndex: dr.Index,
				Vote: &ucon.SingleVote{VoterIdx: uint32(idx), Votes: 1, Signature: sigBytes(sg(dr.Signer, m.Hash, c.Parent, dr.Index, m.Kind)), Proof: []byte{1}}}
			ucon.VerifC05ProcessVoteMsg(v, ucon.VoteType(m.Kind), msg, key(dr.Signer).addr)
		}
		col.waitFor(0, atomic.LoadInt64(&doubleVotes)-before)
		col.lock.Lock()
		defer col.lock.Unlock()
		for _, ev := range col.evs {
			c.Obs.Detected = append(c.Obs.Detected, ev.Type+":"+common.Bytes2Hex(ev.Data))
		}
		sort.Strings(c.Obs.Detected)
	})
}

func oracleDetect(c *Case) []Hit {
	var hits []Hit
	if c.Obs.Panic != "" {
		return []Hit{{What: "panic", Detail: c.Obs.Panic, Case: *c}}
	}
	var want []string
	for _, e := range expectedDetections(c) {
		ev := evidenceOf(e)
		want = append(want, ev.Type+":"+common.Bytes2Hex(ev.Data))
	}
	sort.Strings(want)
	got := c.Obs.Detected
	same := len(want) == len(got)
	for i := 0; same && i < len(want); i++ {
		same = want[i] == got[i]
	}
	if !same {
		hits = append(hits, Hit{What: "detector-wrong-evidence",
			Detail: fmt.Sprintf("the honest detector posted %d evidences, %d expected (one per vote kind with two different hashes, none for next-index votes)", len(got), len(want)), Case: *c})
	}
	return hits
}
