// C05 harness: drives the real double-sign evidence pipeline of the working
// tree (staking.slashing / replaySlashing / processEvidences /
// processDoubleSignV5 / doPenalize / takePenalty, with the real
// core.BlockChain.LookBackVldReaderForRound on a sparse in-memory chain and
// real BLS keys and signatures), writes the cases (inputs + observed results)
// as a Coq file for the model comparison, and evaluates the property oracle on
// the implementation's own observations.
package main

import (
	"encoding/json"
	"flag"
	"fmt"
	"io/ioutil"
	"os"
	"path/filepath"
	"sort"
	"strings"

	"github.com/youchainhq/go-youchain/params"
	"verif/harness/vf"
)

func loadCorpus(dir string) []Case {
	var out []Case
	files, _ := filepath.Glob(filepath.Join(dir, "*.json"))
	sort.Strings(files)
	for _, f := range files {
		b, err := ioutil.ReadFile(f)
		if err != nil {
			continue
		}
		var c Case
		if json.Unmarshal(b, &c) == nil && c.Mode != "" {
			c.Note = "corpus:" + filepath.Base(f)
			out = append(out, c)
		}
	}
	return out
}

func gen(seed uint64, n int, outDir, corpusDir string) {
	r := vf.NewRng(seed)
	res := vf.NewResult("C05", seed)
	fx := probeFixes()
	res.Extra["fix_distinct_hashes_present"] = fx.Distinct
	res.Extra["fix_zero_penalty_confirmed_present"] = fx.Zero
	var cases []Case
	distinct := map[string]bool{}
	seenHit := map[string]int{}
	ucases := 0
	var add func(c Case)
	add = func(c Case) {
		if !c.observed {
			c.Obs = Obs{}
			observe(&c)
		}
		classify(&c, res)
		for _, h := range oracleAny(&c, fx) {
			seenHit[h.What]++
			if seenHit[h.What] <= 3 { // keep the replay files small: three witnesses per class
				res.OracleHits = append(res.OracleHits, h)
			}
		}
		if c.Mode == "voter" || c.Mode == "detect" { // consensus-side runs: oracle only, no model case
			ucases++
			if len(res.Samples) < 8 && ucases <= 2 {
				res.Samples = append(res.Samples, c)
			}
			return
		}
		cases = append(cases, c)
		if nontrivial(&c) {
			distinct[caseKey(&c)] = true
		}
		if c.Mode == "life" {
			// every same-kind pair of votes the life sent goes through the real builder and validator evidence paths
			for _, x := range evidencesOfLife(&c) {
				add(x)
			}
		}
	}
	for _, c := range loadCorpus(corpusDir) {
		add(c)
		res.Count("corpus")
	}
	for len(cases) < n {
		c, extra := genCase(r)
		for _, x := range extra {
			add(x)
		}
		add(c)
	}
	res.Extra["consensus_side_runs"] = ucases
	var sb strings.Builder
	sb.WriteString("From VF.C05 Require Import Model.\nLocal Open Scope Z_scope.\nDefinition cases : list case := [\n")
	for i := range cases {
		if i > 0 {
			sb.WriteString(";\n")
		}
		sb.WriteString(caseCoq(&cases[i], fx))
	}
	sb.WriteString("].\nDefinition M := Eval vm_compute in mismatches cases.\nPrint M.\n")
	vf.WriteFile(filepath.Join(outDir, "Cases.v"), sb.String())
	res.Cases = len(cases)
	res.Distinct = len(distinct)
	for k, v := range seenHit {
		res.Distribution["oracle:"+k] = v
	}
	res.Rule = "worlds = random protocol parameters (penalty fraction 0..150, look-back 1..40), 1-6 BLS/ECDSA key pairs, 1-3 look-back validator sets on a sparse header chain (neighbouring heights point at other sets, needed headers sometimes missing), a current ledger with delegations and withdraw-queue entries at the penalty boundaries (a share of them outside the C08 invariant); evidences assembled from the votes REAL honest Voter runs sent on the same world (prevote/precommit/certificate/next-index, quorum before or after the precommit step) and from simulated ones: the same vote twice, prevote+precommit, the two next-index votes, any multiset; real equivocations; forged / foreign / wrong-round / wrong-index / wrong-hash / undecodable signatures; wrong and out-of-range signer index; past, expired and future rounds; unknown types; the same evidence or signer repeated; each model case runs one of: block builder (slashing) followed by the validator's replay of the produced slash data on an identical state, validator replay of arbitrary slash data, doPenalize with an arbitrary amount; consensus-side runs (oracle only, not counted as cases): honest voter runs and honest double-vote detector runs; non-trivial = at least one evidence reaches signer lookup or a penalty is computed; distinct by full input"
	for i := range cases {
		c := cases[i]
		res.CaseDescs = append(res.CaseDescs, c)
		if len(res.Samples) < 6 && (i < 2 || len(c.Obs.Logs) > 0) {
			res.Samples = append(res.Samples, c)
		}
	}
	res.Write(filepath.Join(outDir, "result.json"))
}

func replay(file string) {
	b, err := ioutil.ReadFile(file)
	if err != nil {
		fmt.Println(err)
		os.Exit(2)
	}
	var h Hit
	if err := json.Unmarshal(b, &h); err != nil {
		fmt.Println(err)
		os.Exit(2)
	}
	c := h.Case
	if c.Mode == "" { // a bare corpus case
		if err := json.Unmarshal(b, &c); err != nil || c.Mode == "" {
			fmt.Println("no case in file")
			os.Exit(2)
		}
	}
	c.Obs = Obs{}
	observe(&c)
	ob, _ := json.Marshal(c.Obs)
	fmt.Printf("observed: %s\n", ob)
	fx := probeFixes()
	hits := oracleAny(&c, fx)
	if c.Mode == "life" { // and every same-kind pair of its votes through the real evidence paths
		for _, x := range evidencesOfLife(&c) {
			observe(&x)
			hits = append(hits, oracleAny(&x, fx)...)
		}
	}
	for _, x := range hits {
		fmt.Printf("ORACLE VIOLATION: %s: %s\n", x.What, x.Detail)
	}
	if len(hits) > 0 {
		os.Exit(1)
	}
}

// mkCorpus writes the defect witnesses (run once; the files are committed).
func mkCorpus(dir string) {
	put := func(name, note string, c Case) {
		c.Note = note
		c.Obs = Obs{}
		b, _ := json.MarshalIndent(c, "", " ")
		vf.WriteFile(filepath.Join(dir, name), string(b))
	}
	c := baseWorld()
	c.Evs = []Ev{{Kind: "ds", Round: 50, RIndex: 1, Idx: 0, VType: 2, Signs: []Sign{sg(0, 7, 50, 1, 2), sg(0, 7, 50, 1, 2)}}}
	put("w1_same_signature_twice.json", "regression (fixed 0c3d6f7): one honest prevote signature listed twice must be refused", c)
	c = baseWorld()
	c.Evs = []Ev{{Kind: "ds", Round: 50, RIndex: 1, Idx: 0, VType: 2, Signs: []Sign{sg(0, 7, 50, 1, 2), sg(0, 8, 50, 1, 3)}}}
	put("w2_prevote_and_precommit.json", "honest prevote(A) and honest precommit(B) of the same round/index", c)
	c = baseWorld()
	c.Evs = []Ev{{Kind: "ds", Round: 50, RIndex: 1, Idx: 0, VType: 2, Signs: []Sign{sg(0, 0, 50, 1, 4), sg(0, 8, 50, 1, 4)}}}
	put("w3_two_next_index_votes.json", "the two next-index votes (empty hash, then the marked block) an honest voter emits", c)
	c = baseWorld()
	c.Cfg.Fraction = 0
	c.Evs = []Ev{{Kind: "ds", Round: 50, RIndex: 1, Idx: 0, VType: 2, Signs: []Sign{sg(0, 7, 50, 1, 2), sg(0, 8, 50, 1, 2)}}}
	put("w4_zero_penalty_builder_only.json", "regression (fixed e1d256e): real equivocation, penalty fraction 0: the builder expels the signer and must put the evidence into the slash data so that the replay expels it too", c)
	c = baseWorld()
	c.Evs = []Ev{{Kind: "ds", Round: 50, RIndex: 1, Idx: 0, VType: 2, Signs: []Sign{sg(0, 7, 50, 1, 2), sg(0, 8, 50, 1, 2)}}}
	c.Vals[0].Dlgs = []Dlg{{D: 1, Stake: "4", Token: "4000000000000000000"}}
	c.Vals[0].Token, c.Vals[0].Stake = "14000000000000000000", "14"
	c.Queue = []WRec{{Val: 0, D: 0, Finished: 0, Final: "100000000000000000"}, {Val: 0, D: 1, Finished: 0, Final: "50000000000000000"}, {Val: 0, D: 0, Finished: 1, Final: "7"}}
	put("r1_real_equivocation.json", "two different prevotes: accepted once, 2% taken from withdrawals, self stake and delegation", c)
	c = baseWorld()
	c.Evs = []Ev{{Kind: "ds", Round: 50, RIndex: 1, Idx: 0, VType: 2, Signs: []Sign{sg(0, 7, 50, 1, 2), sg(0, 8, 50, 1, 2)}}}
	head := uint64(57)
	c.Head = &head
	put("h1_head_is_not_the_parent.json", "regression (fixed ec9154c): block 51 built/validated while the local head is 57: the evidence of round 50 must still be judged against parent height 50", c)
	c = baseWorld()
	c.Headers = append(c.Headers, Hdr{Num: 0, Set: 0})
	c.Mode = "life"
	c.LRun = &LifeRun{Key: 0, Ops: []LifeOp{{Op: "ctx", Step: 1, Best: 1}, {Op: "ctx", Step: 2, Best: 1}, {Op: "restart"},
		{Op: "ctx", Step: 1, Best: 2}, {Op: "ctx", Step: 2, Best: 2}, {Op: "kill", Kill: "after"}, {Op: "quorum", Kind: 2, Hash: 3},
		{Op: "ctx", Step: 1, Best: 4}, {Op: "quorum", Kind: 2, Hash: 5}}}
	put("l1_restart_reenters_position.json", "life: prevote 1 and next-index at (50,1), restart, re-entry at the prevote step with best block 2 (no second prevote may leave), crash after the precommit record is stored, re-entry again (regression for seed C05_7: NewVoteDB must restore the marks of ALL kinds cast in the position)", c)
	c = baseWorld()
	c.Headers = append(c.Headers, Hdr{Num: 0, Set: 0})
	c.Mode = "voter"
	c.VRun = &VoterRun{Key: 0, Index: 1, A: 7, B: 8, Quorum: 2, Cert: true}
	put("v1_honest_run.json", "real honest voter: prevote 7, next-index for the empty hash, then (quorum for 8) precommit 8, next-index 8, certificate 8", c)
	c = baseWorld()
	c.Headers = append(c.Headers, Hdr{Num: 0, Set: 0})
	c.Mode = "detect"
	c.DRun = &DetectRun{Observer: 1, Signer: 0, Index: 1, Msgs: []VoteMsg{{2, 7}, {3, 8}, {4, 0}, {4, 8}, {2, 7}, {2, 9}, {2, 5}, {5, 1}, {5, 2}}}
	put("d1_detector.json", "honest detector: evidence for the two prevotes (7, 9) and the two certificate votes (1, 2) only", c)
}

func main() {
	mode := ""
	if len(os.Args) > 1 {
		mode = os.Args[1]
		os.Args = append(os.Args[:1], os.Args[2:]...)
	}
	seed := flag.Uint64("seed", 1, "")
	n := flag.Int("n", 300, "")
	out := flag.String("out", ".", "")
	corpus := flag.String("corpus", "/verif/corpus/C05", "")
	file := flag.String("file", "", "")
	flag.Parse()
	params.InitNetworkId(params.NetworkIdForTestCase)
	initWorld()
	switch mode {
	case "gen":
		gen(*seed, *n, *out, *corpus)
	case "replay":
		replay(*file)
	case "params":
		paramsTable(*out)
	case "mkcorpus":
		mkCorpus(*out)
	default:
		fmt.Println("usage: c05 gen|replay|params")
		os.Exit(2)
	}
}
