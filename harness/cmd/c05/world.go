package main

import (
	"bytes"
	"crypto/ecdsa"
	"encoding/binary"
	"fmt"
	"math/big"
	"sort"

	"github.com/youchainhq/go-youchain/bls"
	"github.com/youchainhq/go-youchain/common"
	"github.com/youchainhq/go-youchain/core"
	"github.com/youchainhq/go-youchain/core/rawdb"
	"github.com/youchainhq/go-youchain/core/state"
	"github.com/youchainhq/go-youchain/core/types"
	"github.com/youchainhq/go-youchain/crypto"
	"github.com/youchainhq/go-youchain/params"
	"github.com/youchainhq/go-youchain/rlp"
	"github.com/youchainhq/go-youchain/staking"
	"github.com/youchainhq/go-youchain/youdb"
)

// ---- case format (JSON; also the replay / corpus format) ------------------

type Cfg struct {
	Fraction   uint64 `json:"fraction"`
	Expel      uint64 `json:"expel"`
	MaxExpired uint64 `json:"max_expired"`
	StakeLB    uint64 `json:"stake_lb"`
}

// LbVal is a validator of a look-back set.  Key selects the ECDSA main key
// (address), Bls the key whose BLS public key is registered (-1: bytes that do
// not decode).  BadMain: a main public key of invalid length (address zero).
type LbVal struct {
	Key     int    `json:"key"`
	Bls     int    `json:"bls"`
	BadMain bool   `json:"bad_main,omitempty"`
	Stake   uint64 `json:"stake"`
	Extra   uint64 `json:"extra"`
}
type Hdr struct {
	Num uint64 `json:"num"`
	Set int    `json:"set"`
}
type Dlg struct {
	D     int    `json:"d"` // delegator id > 0 (address 1000+d)
	Stake string `json:"stake"`
	Token string `json:"token"`
}
type CurVal struct {
	Key       int    `json:"key"`
	Status    uint8  `json:"status"`
	Expelled  bool   `json:"expelled"`
	Expire    uint64 `json:"expire"`
	Token     string `json:"token"`
	Stake     string `json:"stake"`
	SelfToken string `json:"self_token"`
	SelfStake string `json:"self_stake"`
	Risk      uint16 `json:"risk"`
	Dlgs      []Dlg  `json:"dlgs"`
}
type WRec struct {
	Val      int    `json:"val"` // key id of the validator the record belongs to
	D        int    `json:"d"`   // 0 = own withdrawal, else delegator id
	Finished uint8  `json:"finished"`
	Final    string `json:"final"`
}

// Sign is one (hash, signature) pair of an evidence.  The signature is the
// real BLS signature of key By over the payload (SHash, SRound, SIndex);
// By = -1: 48 pseudo-random bytes (Salt), By = -2: 47 bytes.  Kind is the
// oracle's ghost information: which honest vote the signature came from
// (0 = none / forged, 2 prevote, 3 precommit, 4 next-index, 5 certificate).
type Sign struct {
	Hash   int    `json:"hash"`
	By     int    `json:"by"`
	SHash  int    `json:"shash"`
	SRound uint64 `json:"sround"`
	SIndex uint32 `json:"sindex"`
	Salt   int    `json:"salt,omitempty"`
	Kind   int    `json:"kind,omitempty"`
}
type Ev struct {
	Kind   string `json:"kind"` // "ds", "other", "bad"
	Round  uint64 `json:"round"`
	RIndex uint32 `json:"rindex"`
	Idx    uint32 `json:"idx"`
	VType  uint8  `json:"vtype"`
	Signs  []Sign `json:"signs"`
}

type WLog struct {
	Pos   int    `json:"pos"`
	Final string `json:"final"`
}
type PRec struct {
	Addr   int    `json:"addr"`
	Amount string `json:"amount"`
}
type Log struct {
	Addr  int    `json:"addr"`
	Total string `json:"total"`
	FromW []WLog `json:"from_w"`
	FromD []PRec `json:"from_d"`
	// Tokens are the SlashWithdrawRecord.Token values as logged (all alias one big.Int in the code)
	Tokens []string `json:"tokens,omitempty"`
}
type ValObs struct {
	Addr      int    `json:"addr"`
	Status    uint8  `json:"status"`
	Expelled  bool   `json:"expelled"`
	Expire    uint64 `json:"expire"`
	Token     string `json:"token"`
	Stake     string `json:"stake"`
	SelfToken string `json:"self_token"`
	SelfStake string `json:"self_stake"`
	Risk      uint16 `json:"risk"`
	Dlgs      []Dlg  `json:"dlgs"`
}
type StateObs struct {
	Vals      []ValObs `json:"vals"`
	Queue     []WRec   `json:"queue"`
	PenaltyTo string   `json:"penalty_to"`
}
type RunObs struct {
	Panic     string   `json:"panic,omitempty"`
	Err       bool     `json:"err"`
	Confirmed []int    `json:"confirmed"`
	Pending   []int    `json:"pending"`
	Affected  []int    `json:"affected"`
	Logs      []Log    `json:"logs"`
	State     StateObs `json:"state"`
	Total     string   `json:"total,omitempty"`
	SlashSet  bool     `json:"slash_set"` // builder: header.SlashData was written
}
type Obs struct {
	RunObs
	// builder mode only: the validator's replay of the produced header on an identical state
	Replay *RunObs `json:"replay,omitempty"`
	// voter mode: what the honest voter sent; detect mode: evidences the honest detector posted
	Emitted  []Emitted `json:"emitted,omitempty"`
	Detected []string  `json:"detected,omitempty"`
}

type Case struct {
	Cfg      Cfg      `json:"cfg"`
	Sets     [][]LbVal `json:"sets"`
	Headers  []Hdr    `json:"headers"`
	Parent   uint64   `json:"parent"`
	HNum     uint64   `json:"hnum"`           // number of the block being built / validated; Parent = HNum-1
	Head     *uint64  `json:"head,omitempty"` // number of the local chain head (absent: the parent); must not matter
	Vals     []CurVal `json:"vals"`
	Queue    []WRec   `json:"queue"`
	Mode     string   `json:"mode"` // "build", "replay", "penal"
	Evs      []Ev     `json:"evs"`
	SD       string   `json:"sd,omitempty"` // replay: "none", "garbage", "list"
	PenKey   int      `json:"pen_key,omitempty"`
	PenAmt   string   `json:"pen_amount,omitempty"`
	VRun     *VoterRun  `json:"vrun,omitempty"`
	DRun     *DetectRun `json:"drun,omitempty"`
	LRun     *LifeRun   `json:"lrun,omitempty"`
	// keys whose every signature in this case was sent by a real protocol-following Voter (life runs)
	Honest   []int      `json:"honest,omitempty"`
	FromLife *LifeRun   `json:"from_life,omitempty"` // the life whose votes the evidence of this case pairs up
	Note     string   `json:"note,omitempty"`
	Obs      Obs      `json:"obs"`

	observed bool               // already run (generator used the result)
	realHV   map[string][]Sign  // key/index -> votes a real honest run sent (generator only)
}

// ---- key material ----------------------------------------------------------

type keyPair struct {
	ec     *ecdsa.PrivateKey
	mainPk []byte
	addr   common.Address
	blsSk  bls.SecretKey
	blsPk  []byte
	pk     bls.PublicKey
}

var (
	blsMgr   bls.BlsManager
	keyCache = map[int]*keyPair{}
	sigCache = map[string][]byte{}
	baseYP   params.YouParams
	penaltyTo = common.BigToAddress(big.NewInt(0x1111111112))
)

func initWorld() {
	installLogCounter()
	blsMgr = bls.NewBlsManager()
	yp, ok := params.Versions[params.YouV5]
	if !ok {
		panic("no YouV5 parameters")
	}
	baseYP = yp
}

func key(id int) *keyPair {
	if k, ok := keyCache[id]; ok {
		return k
	}
	k := &keyPair{}
	for ctr := 0; ; ctr++ {
		seed := crypto.Keccak256([]byte(fmt.Sprintf("c05-ec-%d-%d", id, ctr)))
		ec, err := crypto.ToECDSA(seed)
		if err == nil {
			k.ec = ec
			break
		}
	}
	k.mainPk = crypto.CompressPubkey(&k.ec.PublicKey)
	k.addr = crypto.PubkeyToAddress(k.ec.PublicKey)
	for ctr := 0; ; ctr++ {
		seed := crypto.Keccak256([]byte(fmt.Sprintf("c05-bls-%d-%d", id, ctr)))
		seed[0] &= 0x3f
		sk, err := blsMgr.DecSecretKey(seed)
		if err == nil && sk != nil {
			k.blsSk = sk
			break
		}
	}
	pk, err := k.blsSk.PubKey()
	if err != nil {
		panic(err)
	}
	k.pk = pk
	c := pk.Compress()
	k.blsPk = c[:]
	keyCache[id] = k
	return k
}

func hashOf(id int) common.Hash {
	if id == 0 {
		return common.Hash{}
	}
	return crypto.Keccak256Hash([]byte(fmt.Sprintf("c05-hash-%d", id)))
}

func payload(h common.Hash, round uint64, index uint32) []byte {
	var buf = make([]byte, 4)
	binary.BigEndian.PutUint32(buf, index)
	return append(h.Bytes(), append(new(big.Int).SetUint64(round).Bytes(), buf...)...)
}

func sigBytes(s Sign) []byte {
	switch {
	case s.By == -1:
		b := crypto.Keccak256([]byte(fmt.Sprintf("c05-garbage-%d", s.Salt)))
		return append(b, b[:16]...)
	case s.By < -1:
		return crypto.Keccak256([]byte(fmt.Sprintf("c05-short-%d", s.Salt)))[:31]
	}
	ck := fmt.Sprintf("%d/%d/%d/%d", s.By, s.SHash, s.SRound, s.SIndex)
	if b, ok := sigCache[ck]; ok {
		return b
	}
	c := key(s.By).blsSk.Sign(payload(hashOf(s.SHash), s.SRound, s.SIndex)).Compress()
	b := c[:]
	sigCache[ck] = b
	return b
}

// symbolic validity: the signature verifies under key k on (hash, round, index)
func symValid(s Sign, k int, e *Ev) bool {
	return s.By >= 0 && s.By == k && s.SHash == s.Hash && s.SRound == e.Round && s.SIndex == e.RIndex
}

func addrID(a common.Address, c *Case) int {
	if a == (common.Address{}) {
		return 0
	}
	ids := map[int]bool{}
	for _, set := range c.Sets {
		for _, v := range set {
			ids[v.Key] = true
		}
	}
	for _, v := range c.Vals {
		ids[v.Key] = true
	}
	for _, w := range c.Queue {
		ids[w.Val] = true
	}
	for id := range ids {
		if key(id).addr == a {
			return id + 1
		}
	}
	if a.Big().IsInt64() {
		return int(a.Big().Int64())
	}
	return -1
}

func dlgAddr(d int) common.Address { return common.BigToAddress(big.NewInt(int64(1000 + d))) }

func bigOf(s string) *big.Int {
	b, ok := new(big.Int).SetString(s, 10)
	if !ok {
		panic("bad number " + s)
	}
	return b
}

// ---- building the real objects -----------------------------------------------

func youParams(c *Case) *params.YouParams {
	yp := baseYP
	yp.Version = params.YouV5
	yp.StakeLookBack = c.Cfg.StakeLB
	yp.PenaltyFractionForDoubleSign = c.Cfg.Fraction
	yp.ExpelledRoundForDoubleSign = c.Cfg.Expel
	yp.MaxEvidenceExpiredIn = c.Cfg.MaxExpired
	yp.PenaltyTo = penaltyTo
	return &yp
}

func lbMainPk(v LbVal) []byte {
	if v.BadMain {
		return []byte{1, 2, 3}
	}
	return key(v.Key).mainPk
}
func lbBlsPk(v LbVal) []byte {
	if v.Bls < 0 {
		return []byte{9, 9, 9, 9}
	}
	return key(v.Bls).blsPk
}
func lbToken(v LbVal) *big.Int {
	t := new(big.Int).Mul(new(big.Int).SetUint64(v.Stake), params.StakeUint)
	return t.Add(t, new(big.Int).SetUint64(v.Extra))
}
func lbAddr(v LbVal) common.Address {
	if v.BadMain {
		return common.Address{}
	}
	return key(v.Key).addr
}

// sortedSet orders a look-back set the way the protocol defines validator
// indexes: stake descending, then token descending, then address descending
// (the harness' own comparator, not state.Validators').
func sortedSet(set []LbVal) []LbVal {
	var out []LbVal
	seen := map[common.Address]bool{}
	for _, v := range set { // CreateValidator refuses a second validator with the same address
		a := lbAddr(v)
		if seen[a] {
			continue
		}
		seen[a] = true
		out = append(out, v)
	}
	sort.SliceStable(out, func(i, j int) bool {
		a, b := out[i], out[j]
		if a.Stake != b.Stake {
			return a.Stake > b.Stake
		}
		if c := lbToken(a).Cmp(lbToken(b)); c != 0 {
			return c > 0
		}
		return bytes.Compare(lbAddr(a).Bytes(), lbAddr(b).Bytes()) > 0
	})
	return out
}

type world struct {
	db    *youdb.MemDatabase
	sdb   state.Database
	bc    *core.BlockChain
	st    *staking.Staking
	yp    *params.YouParams
}

func headOf(c *Case) uint64 {
	if c.Head != nil {
		return *c.Head
	}
	return c.Parent
}

func buildWorld(c *Case) *world {
	if c.HNum != c.Parent+1 {
		panic("case: hnum must be parent+1 (the parent height is read from the header)")
	}
	w := &world{}
	w.db = youdb.NewMemDatabase()
	w.sdb = state.NewDatabase(w.db)
	w.yp = youParams(c)
	params.Versions = params.VersionsMap{params.YouV5: *w.yp}
	roots := make([]common.Hash, len(c.Sets))
	for i, set := range c.Sets {
		st, err := state.New(common.Hash{}, common.Hash{}, common.Hash{}, w.sdb)
		if err != nil {
			panic(err)
		}
		for _, v := range set {
			tok := lbToken(v)
			st.CreateValidator(fmt.Sprintf("v%d", v.Key), common.Address{}, common.Address{}, params.RoleChancellor,
				lbMainPk(v), lbBlsPk(v), tok, new(big.Int).SetUint64(v.Stake), 1, 0, 0, params.ValidatorOnline)
		}
		_, vr, _, err := st.Commit(true)
		if err != nil {
			panic(err)
		}
		roots[i] = vr
	}
	for _, h := range c.Headers {
		hd := &types.Header{Number: new(big.Int).SetUint64(h.Num), CurrVersion: params.YouV5,
			Subsidy: new(big.Int), GasRewards: new(big.Int)}
		if h.Set >= 0 && h.Set < len(roots) {
			hd.ValRoot = roots[h.Set]
		}
		rawdb.WriteHeader(w.db, hd)
		rawdb.WriteCanonicalHash(w.db, hd.Hash(), h.Num)
	}
	head := &types.Header{Number: new(big.Int).SetUint64(headOf(c)), CurrVersion: params.YouV5,
		Subsidy: new(big.Int), GasRewards: new(big.Int)}
	w.bc = core.VerifStubChainC05(w.db, w.sdb, head)
	w.st = staking.NewStaking(nil)
	staking.VerifSetChainC05(w.st, w.bc)
	return w
}

// ledger builds the current state of the block under construction.
func (w *world) ledger(c *Case) *state.StateDB {
	st, err := state.New(common.Hash{}, common.Hash{}, common.Hash{}, w.sdb)
	if err != nil {
		panic(err)
	}
	for _, v := range c.Vals {
		k := key(v.Key)
		val := st.CreateValidator(fmt.Sprintf("v%d", v.Key), common.Address{}, common.Address{}, params.RoleChancellor,
			k.mainPk, k.blsPk, bigOf(v.Token), bigOf(v.Stake), 1, 0, v.Risk, v.Status)
		if val == nil {
			continue
		}
		val.SelfToken = bigOf(v.SelfToken)
		val.SelfStake = bigOf(v.SelfStake)
		val.Expelled = v.Expelled
		val.ExpelExpired = v.Expire
		for _, d := range v.Dlgs {
			val.Delegations = append(val.Delegations, &state.DelegationFrom{Delegator: dlgAddr(d.D), Stake: bigOf(d.Stake), Token: bigOf(d.Token)})
		}
	}
	for i, q := range c.Queue {
		rec := &state.WithdrawRecord{Validator: key(q.Val).addr, Nonce: uint64(i), Finished: q.Finished,
			InitialBalance: bigOf(q.Final), FinalBalance: bigOf(q.Final)}
		if q.D != 0 {
			rec.Delegator = dlgAddr(q.D)
		}
		st.AddWithdrawRecord(rec)
	}
	return st
}

func evidenceOf(e Ev) staking.Evidence {
	switch e.Kind {
	case "other":
		return staking.Evidence{Type: "inactive", Data: []byte{0xc0}}
	case "bad":
		return staking.Evidence{Type: staking.EvidenceTypeDoubleSignV5, Data: []byte{0x01, 0x02}}
	}
	d := staking.EvidenceDoubleSignV5{Round: e.Round, RoundIndex: e.RIndex, SignerIdx: e.Idx, VoteType: e.VType}
	for _, s := range e.Signs {
		d.Signs = append(d.Signs, &staking.SignInfo{Hash: hashOf(s.Hash), Sign: sigBytes(s)})
	}
	return staking.NewEvidence(d)
}

func evidencesOf(evs []Ev) []staking.Evidence {
	out := make([]staking.Evidence, len(evs))
	for i, e := range evs {
		out[i] = evidenceOf(e)
	}
	return out
}

// indexesOf maps a result list (a subsequence of the input) back to input positions.
func indexesOf(in, sub []staking.Evidence) []int {
	out := []int{}
	j := 0
	for _, e := range sub {
		found := -1
		for ; j < len(in); j++ {
			if in[j].Type == e.Type && bytes.Equal(in[j].Data, e.Data) {
				found = j
				j++
				break
			}
		}
		out = append(out, found)
	}
	return out
}

func (w *world) stateObs(c *Case, st *state.StateDB) StateObs {
	so := StateObs{Vals: []ValObs{}, Queue: []WRec{}}
	seen := map[int]bool{}
	for _, v := range c.Vals {
		if seen[v.Key] {
			continue
		}
		seen[v.Key] = true
		val := st.GetValidatorByMainAddr(key(v.Key).addr)
		if val == nil {
			continue
		}
		vo := ValObs{Addr: v.Key + 1, Status: val.Status, Expelled: val.Expelled, Expire: val.ExpelExpired,
			Token: val.Token.String(), Stake: val.Stake.String(), SelfToken: val.SelfToken.String(),
			SelfStake: val.SelfStake.String(), Risk: val.RiskObligation, Dlgs: []Dlg{}}
		for _, d := range val.Delegations {
			vo.Dlgs = append(vo.Dlgs, Dlg{D: addrID(d.Delegator, c) - 1000, Stake: d.Stake.String(), Token: d.Token.String()})
		}
		so.Vals = append(so.Vals, vo)
	}
	for _, r := range st.GetWithdrawQueue().Records {
		q := WRec{Val: addrID(r.Validator, c) - 1, Finished: r.Finished, Final: r.FinalBalance.String()}
		if r.Delegator != (common.Address{}) {
			q.D = addrID(r.Delegator, c) - 1000
		}
		so.Queue = append(so.Queue, q)
	}
	so.PenaltyTo = st.GetBalance(penaltyTo).String()
	return so
}

func logsOf(c *Case, receipt *types.Receipt) []Log {
	out := []Log{}
	for _, l := range receipt.Logs {
		var d staking.SlashDataV5
		if err := rlp.DecodeBytes(l.Data, &d); err != nil {
			out = append(out, Log{Addr: -1, Total: "undecodable"})
			continue
		}
		lg := Log{Addr: addrID(d.MainAddress, c), Total: d.Total.String(), FromW: []WLog{}, FromD: []PRec{}}
		for _, fw := range d.FromWithdraw {
			lg.FromW = append(lg.FromW, WLog{Pos: int(fw.Record.Nonce), Final: fw.Record.FinalBalance.String()})
			lg.Tokens = append(lg.Tokens, fw.Token.String())
		}
		for _, fd := range d.FromDeposit {
			lg.FromD = append(lg.FromD, PRec{Addr: addrID(fd.Address, c), Amount: fd.Amount.String()})
		}
		out = append(out, lg)
	}
	return out
}

func affectedOf(c *Case, as []*common.Address) []int {
	out := []int{}
	for _, a := range as {
		out = append(out, addrID(*a, c))
	}
	return out
}

func (w *world) header(c *Case) *types.Header {
	return &types.Header{Number: new(big.Int).SetUint64(c.HNum), CurrVersion: params.YouV5,
		Subsidy: new(big.Int), GasRewards: new(big.Int)}
}

func guard(ro *RunObs, f func()) {
	defer func() {
		if r := recover(); r != nil {
			ro.Panic = fmt.Sprint(r)
		}
	}()
	f()
}

// observe runs the implementation on the case and fills c.Obs.
func observe(c *Case) {
	switch c.Mode {
	case "voter":
		observeVoter(c)
		return
	case "detect":
		observeDetect(c)
		return
	case "life":
		observeLife(c)
		return
	}
	w := buildWorld(c)
	switch c.Mode {
	case "build":
		st := w.ledger(c)
		in := evidencesOf(c.Evs)
		staking.VerifSetEvidencesC05(w.st, append([]staking.Evidence{}, in...))
		hd := w.header(c)
		receipt := types.NewReceipt([]byte{}, false, 0)
		ro := &c.Obs.RunObs
		guard(ro, func() {
			conf, pend, aff, err := staking.VerifSlashingC05(w.st, w.yp, st, hd, receipt)
			ro.Err = err != nil
			ro.Confirmed, ro.Pending, ro.Affected = indexesOf(in, conf), indexesOf(in, pend), affectedOf(c, aff)
		})
		ro.Logs = logsOf(c, receipt)
		ro.State = w.stateObs(c, st)
		ro.SlashSet = len(hd.SlashData) > 0
		if ro.Panic == "" {
			// the validator's view: same parent state, the header the builder produced
			w2 := buildWorld(c)
			st2 := w2.ledger(c)
			hd2 := w2.header(c)
			hd2.SlashData = hd.SlashData
			receipt2 := types.NewReceipt([]byte{}, false, 0)
			rp := &RunObs{}
			guard(rp, func() {
				conf, pend, aff, err := staking.VerifReplaySlashingC05(w2.st, w2.yp, st2, hd2, receipt2)
				rp.Err = err != nil
				rp.Confirmed, rp.Pending, rp.Affected = indexesOf(in, conf), indexesOf(in, pend), affectedOf(c, aff)
			})
			rp.Logs = logsOf(c, receipt2)
			rp.State = w2.stateObs(c, st2)
			c.Obs.Replay = rp
		}
	case "replay":
		st := w.ledger(c)
		in := evidencesOf(c.Evs)
		hd := w.header(c)
		switch c.SD {
		case "garbage":
			hd.SlashData = []byte{0x01, 0x02, 0x03}
		case "list":
			b, err := rlp.EncodeToBytes(in)
			if err != nil {
				panic(err)
			}
			hd.SlashData = b
		}
		receipt := types.NewReceipt([]byte{}, false, 0)
		ro := &c.Obs.RunObs
		guard(ro, func() {
			conf, pend, aff, err := staking.VerifReplaySlashingC05(w.st, w.yp, st, hd, receipt)
			ro.Err = err != nil
			ro.Confirmed, ro.Pending, ro.Affected = indexesOf(in, conf), indexesOf(in, pend), affectedOf(c, aff)
		})
		ro.Logs = logsOf(c, receipt)
		ro.State = w.stateObs(c, st)
	case "penal":
		st := w.ledger(c)
		hd := w.header(c)
		ro := &c.Obs.RunObs
		ro.Confirmed, ro.Pending, ro.Affected, ro.Logs = []int{}, []int{}, []int{}, []Log{}
		val := st.GetValidatorByMainAddr(key(c.PenKey).addr)
		if val == nil {
			panic("penal: validator not in the ledger")
		}
		guard(ro, func() {
			total, aff, precs := staking.VerifDoPenalizeC05(w.yp, staking.EvidenceTypeDoubleSign, st, hd, val, bigOf(c.PenAmt), c.Parent)
			ro.Total = total.String()
			lg := Log{Addr: c.PenKey + 1, Total: total.String(), FromW: []WLog{}, FromD: []PRec{}}
			for _, fw := range aff {
				lg.FromW = append(lg.FromW, WLog{Pos: int(fw.Record.Nonce), Final: fw.Record.FinalBalance.String()})
				lg.Tokens = append(lg.Tokens, fw.Token.String())
			}
			for _, fd := range precs {
				lg.FromD = append(lg.FromD, PRec{Addr: addrID(fd.Address, c), Amount: fd.Amount.String()})
			}
			ro.Logs = []Log{lg}
		})
		ro.State = w.stateObs(c, st)
	default:
		panic("unknown mode " + c.Mode)
	}
}

// expectedSigner is the harness' own reading of the protocol: which validator
// of which look-back set an evidence names (nil: none).
func expectedSigner(c *Case, e *Ev) *LbVal {
	set := expectedSetOf(c, e)
	if set == nil || int(e.Idx) >= len(set) {
		return nil
	}
	return &set[e.Idx]
}

// checkBLS cross-checks the symbolic validity rule (a signature by key k over
// (hash, round, index) verifies under k for exactly that triple) with the real
// BLS library, for the key each evidence names.  "" = agreement.
func checkBLS(c *Case) string {
	for i := range c.Evs {
		e := &c.Evs[i]
		if e.Kind != "ds" {
			continue
		}
		sg := expectedSigner(c, e)
		if sg == nil || sg.Bls < 0 {
			continue
		}
		pk := key(sg.Bls).pk
		for _, s := range e.Signs {
			real := false
			if sig, err := blsMgr.DecSignature(sigBytes(s)); err == nil {
				real = pk.Verify(payload(hashOf(s.Hash), e.Round, e.RIndex), sig) == nil
			}
			if real != symValid(s, sg.Bls, e) {
				return fmt.Sprintf("evidence %d: %+v under key %d: BLS library says %v", i, s, sg.Bls, real)
			}
		}
	}
	return ""
}
