// Package vf holds helpers shared by all property harnesses: a replayable
// PRNG, Coq-syntax printers and the result file format read by lib/vf.py.
package vf

import (
	"encoding/json"
	"fmt"
	"io/ioutil"
	"math/big"
	"os"
	"sort"
	"strings"
)

// Rng is splitmix64; every random choice of a harness derives from one state.
type Rng struct{ s uint64 }

// NewRng hashes the seed so that nearby seeds (seed, seed+1, shards) give
// unrelated streams (a plain seed*golden start yields the same stream shifted).
func NewRng(seed uint64) *Rng {
	z := seed + 0x1234567
	for i := 0; i < 3; i++ {
		z = (z ^ (z >> 30)) * 0xBF58476D1CE4E5B9
		z = (z ^ (z >> 27)) * 0x94D049BB133111EB
		z = (z ^ (z >> 31)) + 0x9E3779B97F4A7C15
	}
	return &Rng{s: z}
}
func (r *Rng) U64() uint64 {
	r.s += 0x9E3779B97F4A7C15
	z := r.s
	z = (z ^ (z >> 30)) * 0xBF58476D1CE4E5B9
	z = (z ^ (z >> 27)) * 0x94D049BB133111EB
	return z ^ (z >> 31)
}
func (r *Rng) Intn(n int) int {
	if n <= 0 {
		return 0
	}
	return int(r.U64() % uint64(n))
}
func (r *Rng) Bool() bool        { return r.U64()&1 == 1 }
func (r *Rng) Chance(p int) bool { return r.Intn(100) < p } // p percent
func (r *Rng) Pick(xs []uint64) uint64 {
	return xs[r.Intn(len(xs))]
}
func (r *Rng) Bytes(n int) []byte {
	b := make([]byte, n)
	for i := range b {
		b[i] = byte(r.U64())
	}
	return b
}

// Heavy returns a heavy-tailed size in [0,max]: mostly small.
func (r *Rng) Heavy(max int) int {
	switch r.Intn(10) {
	case 0:
		return r.Intn(max + 1)
	case 1, 2:
		return r.Intn(max/4 + 1)
	default:
		return r.Intn(max/16 + 2)
	}
}

// ---- Coq printers -------------------------------------------------------

func N(x uint64) string       { return fmt.Sprintf("%d%%N", x) }
func Z(x int64) string        { return fmt.Sprintf("(%d)%%Z", x) }
func BigZ(x *big.Int) string  { return fmt.Sprintf("(%s)%%Z", x.String()) }
func BigN(x *big.Int) string  { return fmt.Sprintf("%s%%N", x.String()) }
func Nat(x int) string        { return fmt.Sprintf("%d%%nat", x) }
func Bool(b bool) string {
	if b {
		return "true"
	}
	return "false"
}
func List(xs []string) string { return "[" + strings.Join(xs, "; ") + "]" }
func OptionS(s string, some bool) string {
	if some {
		return "(Some " + s + ")"
	}
	return "None"
}

// ByteList prints a byte string as a Coq list of N.
func ByteList(b []byte) string {
	xs := make([]string, len(b))
	for i, c := range b {
		xs[i] = fmt.Sprintf("%d", c)
	}
	return "[" + strings.Join(xs, ";") + "]%N"
}

// ---- result file --------------------------------------------------------

// Result is what a harness run hands back to the check driver.
type Result struct {
	Property     string                 `json:"property"`
	Seed         uint64                 `json:"seed"`
	Cases        int                    `json:"cases"`         // cases written for the model comparison
	Distinct     int                    `json:"distinct"`      // distinct non-trivial cases (see Rule)
	Rule         string                 `json:"rule"`
	Distribution map[string]int         `json:"distribution"`  // outcome classes reached
	Samples      []interface{}          `json:"samples"`
	CaseDescs    []interface{}          `json:"case_descs"`    // index -> printable input (for replay files)
	OracleHits   []interface{}          `json:"oracle_hits"`   // property violations seen on the implementation
	Known        []interface{}          `json:"known"`         // replays of listed findings that still fail
	Extra        map[string]interface{} `json:"extra,omitempty"`
}

func NewResult(prop string, seed uint64) *Result {
	return &Result{Property: prop, Seed: seed, Distribution: map[string]int{}, Extra: map[string]interface{}{}, Samples: []interface{}{}, CaseDescs: []interface{}{}, OracleHits: []interface{}{}, Known: []interface{}{}}
}
func (r *Result) Count(class string) { r.Distribution[class]++ }
func (r *Result) Write(path string) {
	b, err := json.MarshalIndent(r, "", " ")
	if err != nil {
		panic(err)
	}
	if err := ioutil.WriteFile(path, b, 0644); err != nil {
		panic(err)
	}
}

func WriteFile(path, content string) {
	if err := ioutil.WriteFile(path, []byte(content), 0644); err != nil {
		fmt.Fprintln(os.Stderr, err)
		os.Exit(2)
	}
}

// WriteIfChanged keeps the mtime of generated Coq files stable so that make
// does not rebuild their dependants needlessly.
func WriteIfChanged(path, content string) bool {
	old, err := ioutil.ReadFile(path)
	if err == nil && string(old) == content {
		return false
	}
	WriteFile(path, content)
	return true
}

func SortedKeys(m map[string]int) []string {
	ks := make([]string, 0, len(m))
	for k := range m {
		ks = append(ks, k)
	}
	sort.Strings(ks)
	return ks
}
